"""Author of the generated part of the size-parameter corpus (pv/sym_generated.json).

Random straight-line programs over arrays whose axis lengths are affine in the size parameters n, m.  Every step is
chosen so that it is valid for EVERY size (no integer index or bounded slice on a symbolic axis, reductions written as
einsums, ...); a program is kept only if NumPy accepts it at several sizes AND the tree at hand builds it and generates a
kernel for it.  The kept programs are *committed* (they are corpus entries like the hand-written ones, not regenerated
at check time): a later change to pytato that refuses one of them is a finding, not a silently smaller corpus.

    .venv/bin/python tools/gen_sym_corpus.py <seed> <count>
"""
import itertools
import json
import os
import random
import sys

import numpy as np

sys.path.insert(0, os.path.join(os.path.dirname(os.path.abspath(__file__)), ".."))
from pv import env  # noqa: E402,F401
from pv import corpus as C  # noqa: E402

DIMS = [(0, 1, 0), (0, 0, 1), (1, 1, 0), (1, 2, 0), (0, 1, 1), (2, 0, 1), (0, 2, 0),       # n, m, n+1, 2n+1, n+m, m+2, 2n
        (3, 0, 0), (2, 0, 0), (1, 0, 0), (4, 0, 0)]


def val(d, n, m):
    return d[0] + d[1] * n + d[2] * m


def static(d):
    return d[1] == 0 and d[2] == 0


def draw(rnd, pool):
    """pool: list of dim-lists.  -> (kind, operands, params, result dims) or None"""
    i = rnd.randrange(len(pool))
    dims = pool[i]
    nd = len(dims)
    kind = rnd.choice(["neg", "sin", "square", "scal_mul", "scal_rsub", "recip", "abs", "exp_tanh",
                       "transpose", "transpose", "roll", "roll", "stride", "stride", "sslice", "intidx", "expand", "pad",
                       "einsum1", "einsum1", "ssum", "add", "sub", "mul", "div", "where_lt", "maximum", "stack", "concat",
                       "einsum2", "einsum2", "bcast_row"])
    if kind in ("neg", "sin", "square", "scal_mul", "scal_rsub", "recip", "abs", "exp_tanh"):
        return kind, (i,), (rnd.choice([2.5, -1.0, 0.5, 3]),), dims
    if kind == "transpose":
        if nd < 2:
            return None
        perm = list(range(nd))
        rnd.shuffle(perm)
        return kind, (i,), (tuple(perm),), [dims[p] for p in perm]
    if kind == "roll":
        if nd == 0:
            return None
        return kind, (i,), (rnd.randint(-5, 5), rnd.randrange(nd)), dims
    if kind == "stride":            # x[::k] on any axis (symbolic ones too): length (len + k - 1) // k is not affine -> only
        if nd == 0:                 # on static axes here; symbolic strided lengths are C16's decision family
            return None
        st = [a for a in range(nd) if static(dims[a])]
        if not st:
            return None
        ax = rnd.choice(st)
        k = rnd.choice([2, 3, -1, -2])
        n = dims[ax][0]
        new = len(range(n)[::k])
        return "slice", (i,), (ax, None, None, k), dims[:ax] + [(new, 0, 0)] + dims[ax + 1:]
    if kind == "sslice":
        st = [a for a in range(nd) if static(dims[a])]
        if not st:
            return None
        ax = rnd.choice(st)
        n = dims[ax][0]
        a, b = rnd.choice([(1, None), (0, n - 1), (None, -1), (1, n), (-2, None)])
        new = len(range(n)[slice(a, b, 1)])
        return "slice", (i,), (ax, a, b, 1), dims[:ax] + [(new, 0, 0)] + dims[ax + 1:]
    if kind == "intidx":
        st = [a for a in range(nd) if static(dims[a]) and dims[a][0] > 0]
        if not st:
            return None
        ax = rnd.choice(st)
        return kind, (i,), (ax, rnd.randrange(-dims[ax][0], dims[ax][0])), dims[:ax] + dims[ax + 1:]
    if kind == "expand":
        ax = rnd.randrange(nd + 1)
        return kind, (i,), (ax,), dims[:ax] + [(1, 0, 0)] + dims[ax:]
    if kind == "pad":
        if nd == 0 or nd > 2:
            return None
        w = tuple((rnd.randint(0, 2), rnd.randint(0, 2)) for _ in range(nd))
        return kind, (i,), (w, rnd.choice([0.0, 1.5])), [(d[0] + a + b, d[1], d[2]) for d, (a, b) in zip(dims, w)]
    if kind == "einsum1":
        specs = {1: ["i->", "i->i"], 2: ["ij->ji", "ij->i", "ij->j", "ij->"], 3: ["ijk->kij", "ijk->ik", "ijk->jki", "ijk->j"]}.get(nd)
        if not specs:
            return None
        spec = rnd.choice(specs)
        ins, out = spec.split("->")
        return kind, (i,), (spec,), [dims[ins.index(c)] for c in out]
    if kind == "ssum":              # pt.sum over static axes only (parametric reduction axes are a documented refusal)
        st = [a for a in range(nd) if static(dims[a]) and dims[a][0] > 0]
        if not st:
            return None
        ax = rnd.choice(st)
        return "sum", (i,), (ax,), dims[:ax] + dims[ax + 1:]
    same = [k for k, d in enumerate(pool) if d == dims]
    if kind in ("add", "sub", "mul", "div", "where_lt", "maximum"):
        return kind, (i, rnd.choice(same)), (), dims
    if kind == "bcast_row":
        # combine with an entry whose dims are a suffix of ours / have unit axes
        cands = [k for k, d in enumerate(pool) if len(d) <= nd and all(a == b or a == (1, 0, 0) for a, b in zip(d[::-1], dims[::-1]))]
        if not cands:
            return None
        return "add", (i, rnd.choice(cands)), (), dims
    if kind == "stack":
        ax = rnd.randrange(nd + 1)
        return kind, (i, rnd.choice(same)), (ax,), dims[:ax] + [(2, 0, 0)] + dims[ax:]
    if kind == "concat":
        st = [a for a in range(nd) if static(dims[a])]
        if not st:
            return None
        ax = rnd.choice(st)
        ok = [k for k, d in enumerate(pool) if len(d) == nd and static(d[ax]) and all(d[a] == dims[a] for a in range(nd) if a != ax)]
        j, k = rnd.choice(ok), rnd.choice(ok)
        return kind, (i, j, k), (ax,), dims[:ax] + [(dims[ax][0] + pool[j][ax][0] + pool[k][ax][0], 0, 0)] + dims[ax + 1:]
    if kind == "einsum2":
        cands = []
        for k, d in enumerate(pool):
            if nd == 2 and len(d) == 2:
                if d[0] == dims[1]:
                    cands.append((k, "ij,jk->ik", [dims[0], d[1]]))
                if d == dims:
                    cands += [(k, "ij,ij->i", [dims[0]]), (k, "ij,ij->ji", [dims[1], dims[0]])]
            if nd == 1 and len(d) == 1:
                cands.append((k, "i,j->ij", [dims[0], d[0]]))
                if d == dims:
                    cands.append((k, "i,i->", []))
            if nd == 2 and len(d) == 1 and d[0] == dims[1]:
                cands += [(k, "ij,j->i", [dims[0]]), (k, "ij,j->ij", dims)]
        if not cands:
            return None
        k, spec, out = rnd.choice(cands)
        return kind, (i, k), (spec,), out
    raise AssertionError(kind)


def make_fn(steps, nouts, nins):
    def fn(L, S, **ins):
        pool = [ins[k] for k in sorted(ins)]
        for kind, opnds, prm in steps:
            pool.append(C._apply_step(L, kind, [pool[k] for k in opnds], tuple(tuple(p) if isinstance(p, list) else p for p in prm)))
        made = pool[nins:]
        return {f"o{k}": v for k, v in enumerate(made[-nouts:])}
    return fn


def _tup(x):
    return tuple(_tup(y) for y in x) if isinstance(x, (list, tuple)) else x


def build_symprog(rec):
    steps = [(k, tuple(o), _tup(p)) for k, o, p in rec["steps"]]
    inputs = [(nm, (lambda n, m, dims=_tup(dims): tuple(val(d, n, m) if not static(d) else d[0] for d in dims)), np.float64)
              for nm, dims in rec["inputs"]]
    return C.SymProg(rec["name"], ("n", "m"), inputs, make_fn(steps, rec["nouts"], len(inputs)), min_size=rec.get("min_size", 0))


def accepted_by_numpy(rec):
    P = build_symprog(rec)
    for n, m in [(0, 0), (1, 2), (3, 1), (2, 5), (0, 3), (4, 0)]:
        if n < P.min_size or m < P.min_size:
            continue
        sizes = {"n": n, "m": m}
        data = {nm: np.ones(shp(n, m), dt) for nm, shp, dt in P.inputs}
        try:
            with np.errstate(all="ignore"):
                outs = C.build_sym_numpy(P, sizes, data)
            for v in outs.values():
                if np.asarray(v).ndim > 4:
                    return False
        except Exception:  # noqa: BLE001
            return False
    return True


def accepted_by_tree(rec):
    import pytato as pt
    from pv.props.c05 import _target
    P = build_symprog(rec)
    try:
        outs, ins, S = C.build_sym_pytato(P)
        dag = pt.transform.deduplicate(pt.make_dict_of_named_arrays(outs))
        pt.generate_loopy(dag, target=_target())
        return True, ""
    except Exception as e:  # noqa: BLE001
        return False, f"{type(e).__name__}: {str(e)[:80]}"


def main():
    seed, count = int(sys.argv[1]), int(sys.argv[2])
    rnd = random.Random(4200 + seed)
    out, refused = [], {}
    attempts = 0
    while len(out) < count and attempts < 80 * count:
        attempts += 1
        nin = rnd.randint(1, 3)
        inputs = []
        for j in range(nin):
            nd = rnd.choice([1, 2, 2, 3])
            dims = [rnd.choice(DIMS) for _ in range(nd)]
            if not any(not static(d) for d in dims) and j == 0:
                dims[0] = rnd.choice(DIMS[:7])
            inputs.append((f"x{j}", dims))
        pool = [list(d) for _, d in inputs]
        steps = []
        tries = 0
        want = rnd.randint(3, 6)
        while len(steps) < want and tries < 60:
            tries += 1
            st = draw(rnd, pool)
            if st is None:
                continue
            kind, opnds, prm, rdims = st
            if len(rdims) > 4:
                continue
            steps.append((kind, list(opnds), prm))
            pool.append(list(rdims))
        if len(steps) < 3:
            continue
        rec = {"name": f"symgen{seed}_{len(out)}", "inputs": inputs, "steps": steps, "nouts": min(3, len(steps)), "min_size": 0}
        rec = json.loads(json.dumps(rec))
        if not accepted_by_numpy(rec):
            continue
        ok, why = accepted_by_tree(rec)
        if not ok:
            refused[why] = refused.get(why, 0) + 1
            continue
        out.append(rec)
    path = os.path.join(os.path.dirname(os.path.abspath(__file__)), "..", "pv", "sym_generated.json")
    json.dump(out, open(path, "w"), indent=0)
    print(len(out), "programs written;", attempts, "attempts; refused by the tree:", json.dumps(refused, indent=1))


if __name__ == "__main__":
    main()
