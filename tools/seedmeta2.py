"""writes meta.json for the second-campaign seeds (*-3, *-4) and regenerates seeded/README.md from all meta.json"""
import json, os, re, sys
root = os.path.join(os.path.dirname(os.path.dirname(os.path.abspath(__file__))), "seeded")

# seed -> (needs, before {check: caught?}, after {check: caught?}, strengthening)
T = {
 "C01-3": ("pt.pad over a fixed-length axis whose before/after widths differ (pad(x, (2, 1)))",
           {"C01": 1, "C11": 1}, {"C01": 1, "C11": 1}, "none needed"),
 "C01-4": ("pt.minimum with a NaN in the first operand only (input data, not program structure)",
           {"C01": 0}, {"C01": 1},
           "value obligations are over uninterpreted reads, so a dropped isnan() of one operand only shows when the term "
           "comparison is replayed on data: NaN/inf trials in every numeric replay; corpus outputs mn2/mx2/mn3 (scalar and "
           "broadcast second operands)"),
 "C02-3": ("an einsum whose reduction index has length 1 in one operand and n > 1 in another",
           {"C02": 1, "C01": 1}, {"C02": 1, "C01": 1}, "none needed"),
 "C02-4": ("an advanced index whose contiguous group ends in a scalar int and is followed by a slice (x[idx, 1, :])",
           {"C02": 0, "C01": 1}, {"C02": 1, "C01": 1},
           "C02's index-pattern menu had no int between an index array and a slice: patterns 'Ai:', ':Ai:', 'AAi:' (quick), 'Ais' (thorough)"),
 "C03-3": ("expand_dims with >= 2 axes given in non-ascending order", {"C03": 1}, {"C03": 1}, "none needed"),
 "C03-4": ("imag of a real array whose dtype is not float64", {"C03": 1}, {"C03": 1}, "none needed"),
 "C04-3": ("two loopy calls whose translation units have the same entrypoint kernel but a different callee kernel",
           {"C04": 0}, {"C04": 1},
           "the LoopyCall.translation_unit alternatives were single-kernel units: alternatives now include multi-kernel units "
           "that differ only in a callee"),
 "C04-4": ("two DataWrapper objects around one buffer", {"C04": 1}, {"C04": 1}, "none needed"),
 "C05-3": ("an IndexLambda whose bindings are not inserted in sorted-name order (hand-built, or >= 11 operands) through materialize_with_mpms",
           {"C05": 0, "C07": 0}, {"C05": 1, "C07": 1},
           "corpus program handmade_index_lambda (make_index_lambda with bindings {'minuend','base'}, 11 bindings _in0.._in10, 11-operand stack)"),
 "C05-4": ("zeros_like/ones_like with a dtype= override that differs from the operand's dtype, then eliminate_dead_code",
           {"C05": 0}, {"C05": 1}, "corpus program like_dtype_override"),
 "C06-3": ("einsum distributed over an operand containing a transpose that is not an involution (3-cycle)",
           {"C06": 0}, {"C06": 1}, "C06 program cyclic_transpose_3d (and generator form)"),
 "C06-4": ("an einsum operand that is directly an order='F' Reshape with a broadcast unit axis",
           {"C06": 0}, {"C06": 1}, "C06 program reshape_F_unit_operand"),
 "C07-3": ("ImplStored on an input that is returned directly as an output and also used elsewhere",
           {"C07": 0}, {"C07": 1},
           "C07 never tagged inputs (was listed as outside the claim): variant tagged_inputs; kernel well-formedness now "
           "rejects two arguments of one name (the interpreter's name-keyed argument table had swallowed the duplicate)"),
 "C07-4": ("a LoopyCall with a scalar (non-array) binding through materialize_with_mpms",
           {"C07": 0, "C05": 0}, {"C07": 1, "C05": 1}, "corpus program loopy_call_scalar_binding (callee with a ValueArg bound to a number)"),
 "C08-3": ("a stored array on which sends of two different parts depend, later-part send met first by the gatherer",
           {"C08": 1}, {"C08": 1}, "none needed"),
 "C08-4": (">= 3 dependent communication rounds through a rank and a later message completing no later than an earlier one",
           {"C08": 0}, {"C08": 1},
           "patterns had at most two dependent rounds per rank; three_rounds/three_rounds_one_way did not have a ready part "
           "whose send the outstanding receive depends on: pattern pingpong4 (pingpong5 thorough)"),
 "C11-3": ("a negative-step slice with explicit start >= the axis length (x[7:2:-1])",
           {"C11": 0, "C02": 1}, {"C11": 1, "C02": 1}, "corpus outputs revpast / revlen / revfar in basic_index"),
 "C11-4": ("an einsum with a summed index that is broadcast (length 1) in one operand",
           {"C11": 1, "C01": 1}, {"C11": 1, "C01": 1}, "none needed"),
 "C12-3": ("a traced function returning a tuple of >= 11 arrays", {"C12": 0}, {"C12": 1}, "call site many_outputs (12-tuple)"),
 "C12-4": ("the same definition inlined at two call sites sharing an argument", {"C12": 1}, {"C12": 1}, "none needed"),
 "C14-3": ("an einsum whose output axes are not in first-appearance order of the operand subscripts", {"C14": 1}, {"C14": 1},
           "none needed (exit status: a violation now takes precedence over a harness error of another job)"),
 "C14-4": ("roll along axis 0 of an array with more than one axis", {"C14": 1}, {"C14": 1}, "none needed"),
 "C16-3": ("roll along a size-parameter axis at run-time length < |shift|", {"C16": 1, "C01": 0, "C03": 0}, {"C16": 1}, "none needed"),
 "C16-4": ("transpose of a >= 3-d array by a 3-cycle with axis lengths not all equal",
           {"C16": 0, "C01": 1, "C02": 1}, {"C16": 1, "C01": 1, "C02": 1}, "size-parameter program sym_transpose3"),
 "C19-3": ("a single-operand subscript index lambda with operand shape == result shape that is not the identity (roll, reversal, square transpose)",
           {"C19": 1}, {"C19": 1}, "none needed"),
 "C19-4": ("a math function or zeros_like on a 0-dimensional operand", {"C19": 0}, {"C19": 1}, "API lambdas zerod/* (0-d operands)"),
}

T3 = {
 "C01-5": ("a +, - or * between a uint32 operand and a signed integer operand with data whose exact result is negative or exceeds 32 bits",
           {"C01": 0, "C03": 0}, {"C01": 1},
           "integer wrap-around is abstracted by the term algebra (stated outside): per program the real kernel is now compiled (loopy C "
           "target + gcc) and run on sample data as an encoding-validation side; program mixed_int_widths with extreme integers"),
 "C01-6": ("an integer index in front of the first index array of a contiguous advanced group (x[1, idx])",
           {"C01": 0, "C02": 1}, {"C01": 1, "C02": 1}, "corpus: adv_index outputs h/k/l, programs adv_index_long and adv_index_4d"),
 "C02-5": ("a transpose by a permutation that is not its own inverse (>= 3 axes)", {"C02": 1, "C01": 1}, {"C02": 1, "C01": 1}, "none needed"),
 "C02-6": ("a non-contiguous advanced index whose tuple starts with slices (x[:, i, :, j], >= 4 axes)",
           {"C02": 0, "C01": 0}, {"C02": 1, "C01": 1},
           "C02 now enumerates the whole family of index tuples over {array, full slice, int} up to length 3 (quick) / 4 (thorough); "
           "the driver keeps searching after a counterexample that does not reproduce (here: all lengths 1); corpus adv_index_4d"),
 "C03-5": ("matmul of two stacks of matrices of different rank (both >= 3-d)", {"C03": 0}, {"C03": 1}, "matmul shape harness for ranks (3,4) and (4,3)"),
 "C03-6": ("concatenate with a zero-long piece whose dtype is wider than the promotion of the others", {"C03": 0}, {"C03": 1},
           "dtype table rows concatenate_e1 / concatenate_e2 (a piece sliced to length 0)"),
 "C04-5": ("two Stack/Concatenate nodes where one operand list is a proper prefix of the other", {"C04": 1}, {"C04": 1}, "none needed"),
 "C04-6": ("an array that was hashed, then tagged/untagged, compared by hash with an equal array built another way", {"C04": 0}, {"C04": 1},
           "side derived-after-hash: tagged / without_tags / with_tagged_axis / copy / replace of an already hashed object vs the same "
           "derivation of a never-hashed twin and vs a pickle round trip"),
 "C05-5": ("a CSRMatmul whose matrix arrays are rewritten by the transformation (duplicates inside elem_values, shared index buffer)",
           {"C05": 0}, {"C05": 1}, "corpus program csr_computed (matrix parts computed / shared / wrapped twice); aliased inputs are one uninterpreted array"),
 "C05-6": ("any transformation that rewrites an output of a DictOfNamedArrays (input object mutated)", {"C05": 1}, {"C05": 1}, "none needed"),
 "C06-6": ("array // scalar on the distribution path of a distributed einsum", {"C06": 0, "C19": 1, "C14": 1}, {"C06": 1, "C19": 1, "C14": 1},
           "C06 programs nonlinear_on_path_div/_pow/_sel (floor division, modulo, power, sqrt, abs, where on the path)"),
 "C07-5": ("two index arrays in one subscript, one correctly tagged AssumeNonNegative, the other untagged with negative entries",
           {"C07": 0}, {"C07": 1},
           "C07 listed the assumption tag as outside: variant assume_nonneg tags exactly the index inputs a program declares non-negative "
           "(program adv_index_nonneg); the algebra knows v % n == v for in-range reads of such inputs"),
 "C07-6": ("materialize_with_mpms on a CSRMatmul whose elem_values contain a node that MPMS stores", {"C07": 0, "C05": 0}, {"C07": 1, "C05": 1},
           "corpus program csr_computed"),
 "C08-5": ("the same partition object executed twice", {"C08": 1}, {"C08": 1}, "none needed"),
 "C08-6": ("a rank without any send/receive while other ranks communicate", {"C08": 0}, {"C08": 1}, "pattern silent_rank (3 ranks)"),
 "C11-5": ("a transpose by a permutation that is not its own inverse, axes of unequal length", {"C11": 1, "C01": 1}, {"C11": 1, "C01": 1}, "none needed"),
 "C11-6": ("a contiguous advanced group ending in an int, followed by a slice, index array longer than the sliced axis",
           {"C11": 0, "C02": 1}, {"C11": 1, "C02": 1}, "corpus program adv_index_long (index arrays longer than the axes that follow)"),
 "C12-5": ("a call site that already carries InlineCallTag before tag_all_calls_to_be_inlined, with an untagged call nested below it",
           {"C12": 0}, {"C12": 1}, "call site pretagged_nested"),
 "C12-6": ("a traced function that ignores one of its arguments", {"C12": 1}, {"C12": 1}, "none needed"),
 "C14-5": ("a transpose by a permutation that is not its own inverse", {"C14": 1}, {"C14": 1}, "none needed"),
 "C14-6": ("logical_and / logical_or with non-boolean operands (ints outside {0,1}, floats)", {"C14": 0}, {"C14": 1}, "corpus program logical_nonbool"),
 "C16-5": ("a sign decision that only flips at size 0 (n - 1 >= 0; x[0] on an axis of length n)", {"C16": 0}, {"C16": 1},
           "C16's z3 decision family only covered equality: it now also asks z3 about every True of _is_non_negative/_is_non_positive and "
           "about every integer index accepted on a symbolic-length axis"),
 "C16-6": ("a negative integer index on an axis of symbolic length n + c, basic indexing", {"C16": 0, "C11": 0}, {"C16": 1, "C11": 1},
           "size-parameter program sym_int_index"),
 "C19-5": ("a binary op between an array and a NumPy-typed scalar whose dtype is not the result dtype", {"C19": 0}, {"C19": 1}, "API lambdas npscalar/*"),
 "C19-6": ("a hand-written partial reduction that shares one end with the axis", {"C19": 1}, {"C19": 1}, "none needed"),
}
T4 = {
 "C01-7": ("a narrowing astype (int64->int8, ...) of out-of-range data consumed by something that casts again",
           {"C01": 0}, {"C01": 1}, "corpus program narrowing_casts (caught by the sampled run of the compiled kernel: the algebra does not model widths)"),
 "C01-8": ("a concatenate of three or more pieces", {"C01": 1, "C02": 1}, {"C01": 1, "C02": 1}, "none needed"),
 "C02-7": ("an einsum with several summation indices that first appear in different operands (ij,kl->ik; i,j->; a chain of four matrices)",
           {"C02": 0, "C01": 0}, {"C02": 1, "C01": 1}, "einsum specs ij,kl->ik / i,j-> / i,jk->k / 4-chain in C02's menu and in corpus einsum_forms"),
 "C02-8": ("a concatenate of three or more pieces", {"C02": 1}, {"C02": 1}, "none needed"),
 "C03-7": ("pt.where with a non-boolean condition whose dtype is wider than the branches'", {"C03": 0}, {"C03": 1}, "dtype table row where_c"),
 "C03-8": ("a reduction axis tuple that repeats an axis", {"C03": 1}, {"C03": 1}, "none needed"),
 "C04-7": ("two LoopyCalls whose bindings were written in a different order", {"C04": 1}, {"C04": 1}, "none needed"),
 "C04-8": ("two function definitions that differ in the return convention only", {"C04": 1}, {"C04": 1}, "none needed"),
 "C05-7": ("two wrapped arrays with the same PrefixNamed prefix, then preprocessing", {"C05": 0, "C07": 1}, {"C05": 1, "C07": 1},
           "C05 transformation prefix_named_wrappers+preprocess"),
 "C05-8": ("a concatenate of pieces with different dtypes, the narrower first, then lowering", {"C05": 0, "C01": 0}, {"C05": 1, "C01": 1},
           "corpus program mixed_dtype_join"),
 "C06-7": ("real/imag/conj of a complex array on the path of a distributed einsum with another complex operand", {"C06": 0}, {"C06": 1},
           "C06 was real-only: program complex_parts; z3 reasons over a field with conj/real/imag uninterpreted (sound for unsat), the replay gives complex inputs an imaginary part"),
 "C06-8": ("an einsum operand that is directly a basic index with an int before a length-1 slice", {"C06": 0}, {"C06": 1}, "program indexed_unit_operand"),
 "C07-7": ("a Named(n) temporary followed by a PrefixNamed(n) one", {"C07": 0}, {"C07": 1}, "variants same_prefix_stored, named_then_prefix, prefix_subst"),
 "C07-8": ("a reduction with data-dependent bounds tagged inlined/substitution (here: every reduction, is_quasi_affine being broken)", {"C07": 1}, {"C07": 1}, "none needed"),
 "C08-7": ("one rank handing the same array to two sends", {"C08": 0}, {"C08": 1}, "pattern same_payload"),
 "C08-8": ("an overall output that is a stored array on which an earlier part's send depends", {"C08": 1}, {"C08": 1}, "none needed"),
 "C11-7": ("a concatenate of three or more pieces of unequal length", {"C11": 1, "C02": 1}, {"C11": 1, "C02": 1}, "none needed"),
 "C11-8": ("non-adjacent index arrays with a full slice that is not the last slice (x[:, i, :, j])", {"C11": 1, "C02": 1}, {"C11": 1, "C02": 1},
           "none needed (adv_index_4d and the index-tuple family came from campaign 3)"),
 "C12-7": ("a function result that is one of its parameters, bound to the result of another call, used by the caller", {"C12": 0}, {"C12": 1}, "call site passthrough_of_call"),
 "C12-8": ("a nested call feeding two results of the outer function", {"C12": 1}, {"C12": 1}, "none needed"),
 "C14-7": ("a constant array with fill value 0 or 1 and a floating dtype other than float64", {"C14": 0}, {"C14": 1}, "corpus program creation_dtypes"),
 "C14-8": ("one program object called twice, the second call omitting an input", {"C14": 0}, {"C14": 1},
           "every run used a fresh program object: side repeated-calls-take-exactly-the-callers-inputs"),
 "C16-7": ("a slice of an axis whose symbolic length is not provably >= 0 (n - 2)", {"C16": 0, "C11": 0}, {"C16": 1},
           "z3 decision family for strided-slice lengths (floor division): inferred length right wherever the axis is valid"),
 "C16-8": ("a strided-slice length compared with something that agrees with it at n = 0, 1 only", {"C16": 0}, {"C16": 1},
           "same family: equality / broadcast decisions between two strided-slice lengths must be sound for every size"),
 "C19-7": ("a hand-written reduction with a value-changing cast inside or around it", {"C19": 0}, {"C19": 1}, "near-misses reduce_cast_inner / reduce_cast_outer"),
 "C19-8": ("x + (-1)*y*z written as a flat three-factor product", {"C19": 0}, {"C19": 1}, "near-misses sub_flat3 / sub_flat3s / sub_flat3b"),
}
T5 = {
 "C01-9": ("an Ellipsis standing for >= 1 axis followed by another index entry (x[..., 1])", {"C01": 1, "C02": 0}, {"C01": 1}, "none needed"),
 "C01-10": ("pt.arange with an integer dtype and a negative step", {"C01": 0, "C03": 1}, {"C01": 1, "C03": 1}, "corpus outputs creation/arn, arn2, ars"),
 "C05-9": ("materialize_with_mpms on a stack/concatenate with a repeated operand", {"C05": 1, "C07": 1}, {"C05": 1, "C07": 1},
           "none needed (caught by generated program g2_0_3); corpus program repeated_operands added all the same"),
 "C05-10": ("one array returned under two output names, then generate_loopy", {"C05": 0, "C01": 1}, {"C05": 1, "C01": 1},
            "C05's preprocess transformation asserts that compute_order is exactly the set of output names"),
 "C06-9": ("a distributed 0-d einsum operand that contains a scaling", {"C06": 0}, {"C06": 1}, "program zero_d_operand"),
 "C06-10": ("0 - x with a literal zero on the path of a distributed einsum", {"C06": 0}, {"C06": 1}, "program literal_zero"),
 "C07-9": ("ImplStored on a pure transposition (equal-length axes) of a stored array, used by another array", {"C07": 1}, {"C07": 1}, "none needed"),
 "C07-10": ("a zero-size output carrying an axis tag", {"C07": 1}, {"C07": 1}, "none needed"),
 "C16-9": ("two symbolic components in one of which a parameter appears but cancels ((n + m) - n vs m)", {"C16": 0}, {"C16": 1},
           "the decision family built every expression from its coefficients: it now also compares (e1 + e2) - e2 with e1 and e2"),
 "C16-10": ("two shapes with >= 2 symbolic axes whose mismatches cancel ((n, m) vs (m, n))", {"C16": 0}, {"C16": 1},
            "decisions are_shapes_equal((e1, e2), (e2, e1)) and ((e1 + 1, e2), (e1, e2 + 1))"),
 "C19-9": ("an addend that is the most negative value of a NumPy integer type, in wider arithmetic", {"C19": 0}, {"C19": 1}, "API lambdas npscalar/*min*"),
 "C19-10": ("pt.where with a floating-point or complex condition array", {"C19": 0}, {"C19": 1}, "API lambdas where/fcond, icond, ccond"),
}
OBSOLETE = {"C06-5": "exploited the defect repaired by /repo d5be0ba (astype raised as BroadcastOp); on the current tree the distributive "
                     "law refuses graphs with astype on the path (UnknownIndexLambdaExpr), as on the pinned tree, so the change cannot manifest"}


def files_changed(sd):
    out = []
    for l in open(os.path.join(sd, "patch.diff")):
        m = re.match(r"diff --git a/(\S+) b/", l)
        if m:
            out.append(m.group(1))
    return out


def main():
    for sid, why in OBSOLETE.items():
        sd = os.path.join(root, sid)
        json.dump({"id": sid, "breaks_property": sid.split("-")[0], "campaign": 3, "files_changed": files_changed(sd),
                   "status": "obsolete", "why": why}, open(os.path.join(sd, "meta.json"), "w"), indent=1)
    for camp, table in ((2, T), (3, T3), (4, T4), (5, T5)):
        for sid, (needs, before, after, how) in table.items():
            sd = os.path.join(root, sid)
            meta = {
                "id": sid, "breaks_property": sid.split("-")[0], "campaign": camp, "files_changed": files_changed(sd),
                "needs_to_manifest": needs,
                "author": "independent sub-agent given only the property text and a scratch worktree (see notes.md)",
                "confirmed_by_us": {"command": f"bin/seedconfirm seeded/{sid}", "demo_on_original_exit": 0, "demo_with_patch_exit": 1,
                                    "baseline_suite_with_patch": "2 failed (the two always-failing tests), 80 passed"},
                "checks_run": {"command": f"bin/seedrun seeded/{sid} quick " + " ".join(after),
                               "before_strengthening": {c: {"caught": bool(v)} for c, v in before.items()},
                               "after_strengthening": {c: {"caught": bool(v)} for c, v in after.items()}},
                "strengthening": how,
            }
            json.dump(meta, open(os.path.join(sd, "meta.json"), "w"), indent=1)
    rows = []
    obsolete = []
    for sid in sorted(os.listdir(root)):
        mp = os.path.join(root, sid, "meta.json")
        if not os.path.exists(mp):
            continue
        m = json.load(open(mp))
        if m.get("status") == "obsolete":
            obsolete.append((sid, m["why"]))
            continue

        def caught(d):
            r = [c for c, v in sorted(d.items()) if (v.get("caught") if "caught" in v else v.get("exit") == 1)]
            return ", ".join(r) or "-"
        rows.append((sid, m["needs_to_manifest"], caught(m["checks_run"]["before_strengthening"]),
                     caught(m["checks_run"]["after_strengthening"]), m.get("campaign", 1)))
    n1 = [r for r in rows if r[4] == 1]
    n2 = [r for r in rows if r[4] == 2]
    n3 = [r for r in rows if r[4] == 3]
    n4 = [r for r in rows if r[4] == 4]
    n5 = [r for r in rows if r[4] == 5]
    with open(os.path.join(root, "README.md"), "w") as f:
        f.write("# Seeded changes\n\nEach directory holds one change to inducer/pytato written by an independent sub-agent that was "
                "given only the text of one property and a scratch worktree (nothing from /verif): `patch.diff`, `demo.py` (passes on "
                "the original, fails with the change), the agent's `notes.md`, and our `meta.json`.  Every change was confirmed by us "
                "with `bin/seedconfirm` (demo passes on /repo's HEAD, fails with the patch; the baseline suite still passes with the "
                "patch) and run against the checks with `bin/seedrun` (scratch worktree + `VERIF_REPO`; /repo is never modified).  "
                "`-1`/`-2` are the first campaign, `-3`/`-4` the second, `-5`/`-6` the third, `-7`/`-8` the fourth, `-9`/`-10` a fifth round for six properties (each run against the checks as "
                "strengthened after the previous one).\n\n"
                "| seed | what it needs to manifest | caught before strengthening (quick tier) | caught now |\n|---|---|---|---|\n")
        for sid, needs, b, a, _ in rows:
            f.write(f"| {sid} | {needs} | {b} | {a} |\n")
        for sid, why in obsolete:
            f.write(f"| {sid} | (obsolete: {why}) | | |\n")
        for name, rs in (("First", n1), ("Second", n2), ("Third", n3), ("Fourth", n4), ("Fifth (six properties only)", n5)):
            own = sum(1 for r in rs if r[0].split("-")[0] in r[2].split(", "))
            anyc = sum(1 for r in rs if r[2] != "-")
            now = sum(1 for r in rs if r[0].split("-")[0] in r[3].split(", "))
            f.write(f"\n{name} campaign: {own} of {len(rs)} caught at once by the check of the property the change was written "
                    f"against ({anyc} by some check); after strengthening {now} of {len(rs)} are caught by that check (quick tier).")
        f.write("  What was strengthened for each miss is in its `meta.json`.\n")


main()
