"""writes meta.json for the second-campaign seeds (*-3, *-4) and regenerates seeded/README.md from all meta.json"""
import json, os, re, sys
root = os.path.join(os.path.dirname(os.path.dirname(os.path.abspath(__file__))), "seeded")

# seed -> (needs, before {check: caught?}, after {check: caught?}, strengthening)
T = {
 "C01-3": ("pt.pad over a fixed-length axis whose before/after widths differ (pad(x, (2, 1)))",
           {"C01": 1, "C11": 1}, {"C01": 1, "C11": 1}, "none needed"),
 "C01-4": ("pt.minimum with a NaN in the first operand only (input data, not program structure)",
           {"C01": 0}, {"C01": 1},
           "value obligations are over uninterpreted reads, so a dropped isnan() of one operand only shows when the term "
           "comparison is replayed on data: NaN/inf trials in every numeric replay; corpus outputs mn2/mx2/mn3 (scalar and "
           "broadcast second operands)"),
 "C02-3": ("an einsum whose reduction index has length 1 in one operand and n > 1 in another",
           {"C02": 1, "C01": 1}, {"C02": 1, "C01": 1}, "none needed"),
 "C02-4": ("an advanced index whose contiguous group ends in a scalar int and is followed by a slice (x[idx, 1, :])",
           {"C02": 0, "C01": 1}, {"C02": 1, "C01": 1},
           "C02's index-pattern menu had no int between an index array and a slice: patterns 'Ai:', ':Ai:', 'AAi:' (quick), 'Ais' (thorough)"),
 "C03-3": ("expand_dims with >= 2 axes given in non-ascending order", {"C03": 1}, {"C03": 1}, "none needed"),
 "C03-4": ("imag of a real array whose dtype is not float64", {"C03": 1}, {"C03": 1}, "none needed"),
 "C04-3": ("two loopy calls whose translation units have the same entrypoint kernel but a different callee kernel",
           {"C04": 0}, {"C04": 1},
           "the LoopyCall.translation_unit alternatives were single-kernel units: alternatives now include multi-kernel units "
           "that differ only in a callee"),
 "C04-4": ("two DataWrapper objects around one buffer", {"C04": 1}, {"C04": 1}, "none needed"),
 "C05-3": ("an IndexLambda whose bindings are not inserted in sorted-name order (hand-built, or >= 11 operands) through materialize_with_mpms",
           {"C05": 0, "C07": 0}, {"C05": 1, "C07": 1},
           "corpus program handmade_index_lambda (make_index_lambda with bindings {'minuend','base'}, 11 bindings _in0.._in10, 11-operand stack)"),
 "C05-4": ("zeros_like/ones_like with a dtype= override that differs from the operand's dtype, then eliminate_dead_code",
           {"C05": 0}, {"C05": 1}, "corpus program like_dtype_override"),
 "C06-3": ("einsum distributed over an operand containing a transpose that is not an involution (3-cycle)",
           {"C06": 0}, {"C06": 1}, "C06 program cyclic_transpose_3d (and generator form)"),
 "C06-4": ("an einsum operand that is directly an order='F' Reshape with a broadcast unit axis",
           {"C06": 0}, {"C06": 1}, "C06 program reshape_F_unit_operand"),
 "C07-3": ("ImplStored on an input that is returned directly as an output and also used elsewhere",
           {"C07": 0}, {"C07": 1},
           "C07 never tagged inputs (was listed as outside the claim): variant tagged_inputs; kernel well-formedness now "
           "rejects two arguments of one name (the interpreter's name-keyed argument table had swallowed the duplicate)"),
 "C07-4": ("a LoopyCall with a scalar (non-array) binding through materialize_with_mpms",
           {"C07": 0, "C05": 0}, {"C07": 1, "C05": 1}, "corpus program loopy_call_scalar_binding (callee with a ValueArg bound to a number)"),
 "C08-3": ("a stored array on which sends of two different parts depend, later-part send met first by the gatherer",
           {"C08": 1}, {"C08": 1}, "none needed"),
 "C08-4": (">= 3 dependent communication rounds through a rank and a later message completing no later than an earlier one",
           {"C08": 0}, {"C08": 1},
           "patterns had at most two dependent rounds per rank; three_rounds/three_rounds_one_way did not have a ready part "
           "whose send the outstanding receive depends on: pattern pingpong4 (pingpong5 thorough)"),
 "C11-3": ("a negative-step slice with explicit start >= the axis length (x[7:2:-1])",
           {"C11": 0, "C02": 1}, {"C11": 1, "C02": 1}, "corpus outputs revpast / revlen / revfar in basic_index"),
 "C11-4": ("an einsum with a summed index that is broadcast (length 1) in one operand",
           {"C11": 1, "C01": 1}, {"C11": 1, "C01": 1}, "none needed"),
 "C12-3": ("a traced function returning a tuple of >= 11 arrays", {"C12": 0}, {"C12": 1}, "call site many_outputs (12-tuple)"),
 "C12-4": ("the same definition inlined at two call sites sharing an argument", {"C12": 1}, {"C12": 1}, "none needed"),
 "C14-3": ("an einsum whose output axes are not in first-appearance order of the operand subscripts", {"C14": 1}, {"C14": 1},
           "none needed (exit status: a violation now takes precedence over a harness error of another job)"),
 "C14-4": ("roll along axis 0 of an array with more than one axis", {"C14": 1}, {"C14": 1}, "none needed"),
 "C16-3": ("roll along a size-parameter axis at run-time length < |shift|", {"C16": 1, "C01": 0, "C03": 0}, {"C16": 1}, "none needed"),
 "C16-4": ("transpose of a >= 3-d array by a 3-cycle with axis lengths not all equal",
           {"C16": 0, "C01": 1, "C02": 1}, {"C16": 1, "C01": 1, "C02": 1}, "size-parameter program sym_transpose3"),
 "C19-3": ("a single-operand subscript index lambda with operand shape == result shape that is not the identity (roll, reversal, square transpose)",
           {"C19": 1}, {"C19": 1}, "none needed"),
 "C19-4": ("a math function or zeros_like on a 0-dimensional operand", {"C19": 0}, {"C19": 1}, "API lambdas zerod/* (0-d operands)"),
}


def files_changed(sd):
    out = []
    for l in open(os.path.join(sd, "patch.diff")):
        m = re.match(r"diff --git a/(\S+) b/", l)
        if m:
            out.append(m.group(1))
    return out


def main():
    for sid, (needs, before, after, how) in T.items():
        sd = os.path.join(root, sid)
        meta = {
            "id": sid, "breaks_property": sid.split("-")[0], "campaign": 2, "files_changed": files_changed(sd),
            "needs_to_manifest": needs,
            "author": "independent sub-agent given only the property text and a scratch worktree (see notes.md)",
            "confirmed_by_us": {"command": f"bin/seedconfirm seeded/{sid}", "demo_on_original_exit": 0, "demo_with_patch_exit": 1,
                                "baseline_suite_with_patch": "2 failed (the two always-failing tests), 80 passed"},
            "checks_run": {"command": f"bin/seedrun seeded/{sid} quick " + " ".join(after),
                           "before_strengthening": {c: {"caught": bool(v)} for c, v in before.items()},
                           "after_strengthening": {c: {"caught": bool(v)} for c, v in after.items()}},
            "strengthening": how,
        }
        json.dump(meta, open(os.path.join(sd, "meta.json"), "w"), indent=1)
    rows = []
    for sid in sorted(os.listdir(root)):
        mp = os.path.join(root, sid, "meta.json")
        if not os.path.exists(mp):
            continue
        m = json.load(open(mp))

        def caught(d):
            r = [c for c, v in sorted(d.items()) if (v.get("caught") if "caught" in v else v.get("exit") == 1)]
            return ", ".join(r) or "-"
        rows.append((sid, m["needs_to_manifest"], caught(m["checks_run"]["before_strengthening"]),
                     caught(m["checks_run"]["after_strengthening"]), m.get("campaign", 1)))
    n1 = [r for r in rows if r[4] == 1]
    n2 = [r for r in rows if r[4] == 2]
    with open(os.path.join(root, "README.md"), "w") as f:
        f.write("# Seeded changes\n\nEach directory holds one change to inducer/pytato written by an independent sub-agent that was "
                "given only the text of one property and a scratch worktree (nothing from /verif): `patch.diff`, `demo.py` (passes on "
                "the original, fails with the change), the agent's `notes.md`, and our `meta.json`.  Every change was confirmed by us "
                "with `bin/seedconfirm` (demo passes on /repo's HEAD, fails with the patch; the baseline suite still passes with the "
                "patch) and run against the checks with `bin/seedrun` (scratch worktree + `VERIF_REPO`; /repo is never modified).  "
                "`-1`/`-2` are the first campaign, `-3`/`-4` the second (run against the checks as strengthened after the first).\n\n"
                "| seed | what it needs to manifest | caught before strengthening (quick tier) | caught now |\n|---|---|---|---|\n")
        for sid, needs, b, a, _ in rows:
            f.write(f"| {sid} | {needs} | {b} | {a} |\n")
        for name, rs in (("First", n1), ("Second", n2)):
            own = sum(1 for r in rs if r[0].split("-")[0] in r[2].split(", "))
            anyc = sum(1 for r in rs if r[2] != "-")
            now = sum(1 for r in rs if r[0].split("-")[0] in r[3].split(", "))
            f.write(f"\n{name} campaign: {own} of {len(rs)} caught at once by the check of the property the change was written "
                    f"against ({anyc} by some check); after strengthening {now} of {len(rs)} are caught by that check (quick tier).")
        f.write("  What was strengthened for each miss is in its `meta.json`.\n")


main()
