#!/bin/bash
# Build (idempotently) the overlay venv /verif/.venv: /venv's packages (pytato's
# dependencies) + crosshair-tool, z3-solver, cvc5 from the offline wheelhouse.
set -e
here="$(cd "$(dirname "${BASH_SOURCE[0]}")/.." && pwd)"
venv="$here/.venv"
stamp="$venv/.ok"
if [ -f "$stamp" ]; then exit 0; fi
exec 9>"$here/.venv.lock"
flock 9
if [ -f "$stamp" ]; then exit 0; fi
rm -rf "$venv"
/venv/bin/python -m venv "$venv" >&2
sp="$("$venv/bin/python" -c 'import sysconfig; print(sysconfig.get_paths()["purelib"])')"
printf "import site; site.addsitedir('/venv/lib/python3.12/site-packages')\n" > "$sp/_verif_overlay.pth"
PIP_NO_INDEX=1 "$venv/bin/pip" install -q --no-index --find-links /opt/veriftools/wheels \
    crosshair-tool z3-solver cvc5 jsonschema >&2
"$venv/bin/python" -c 'import crosshair, z3, cvc5, numpy, loopy, islpy, pymbolic' >&2
touch "$stamp"
