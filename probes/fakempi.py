"""Minimal in-process fake of the mpi4py surface pytato touches."""
import sys, types, threading

class Op:
    def __init__(self, fn): self.fn = fn
    @staticmethod
    def Create(fn, commute=True): return Op(fn)
    def Free(self): pass

class World:
    def __init__(self, size):
        self.size = size
        self.barrier_ = threading.Barrier(size)
        self.slots = [None]*size
        self.result = None
        self.lock = threading.Lock()

class Comm:
    def __init__(self, world, rank):
        self.world = world; self.rank = rank; self.size = world.size
    def Get_rank(self): return self.rank
    def Get_size(self): return self.size
    def _exchange(self, val):
        w = self.world
        w.slots[self.rank] = val
        w.barrier_.wait()
        vals = list(w.slots)
        w.barrier_.wait()
        return vals
    def allreduce(self, val, op):
        vals = self._exchange(val)
        acc = vals[0]
        for v in vals[1:]:
            acc = op.fn(acc, v, None)
        return acc
    def bcast(self, val, root=0):
        return self._exchange(val)[root]
    def gather(self, val, root=0):
        vals = self._exchange(val)
        return vals if self.rank == root else None
    def barrier(self):
        self.world.barrier_.wait()

def install():
    m = types.ModuleType("mpi4py"); MPI = types.ModuleType("mpi4py.MPI")
    MPI.Op = Op
    class Request:
        Waitsome = None
    MPI.Request = Request
    m.MPI = MPI
    sys.modules["mpi4py"] = m; sys.modules["mpi4py.MPI"] = MPI
    return MPI

def run_collective(size, fn):
    """run fn(comm) on `size` simulated ranks (threads); returns per-rank results or exceptions"""
    w = World(size); out = [None]*size
    def tgt(r):
        try: out[r] = ("ok", fn(Comm(w, r)))
        except BaseException as e:
            out[r] = ("exc", e)
            w.barrier_.abort()
    ths = [threading.Thread(target=tgt, args=(r,)) for r in range(size)]
    [t.start() for t in ths]; [t.join() for t in ths]
    return out
