import numpy as np, pytato as pt, fakempi, sys, time
MPI = fakempi.install()
from dsim import Sim
from pytato.target.python.numpy_like import generate_numpy_like
from pytato.target.python import NumpyLikePythonTarget, BoundPythonProgram
class NT(NumpyLikePythonTarget):
    numpy_like_module_name = "numpy"; numpy_like_module_name_shorthand = "_np"
    def bind_program(self, program, entrypoint, expected_arguments, bound_arguments):
        return BoundPythonProgram(target=self, program=program, entrypoint=entrypoint, expected_arguments=expected_arguments, bound_arguments=bound_arguments)
SIZE = 2
def build(comm):
    rank, size = comm.rank, comm.size
    other = 1 - rank
    x = pt.make_placeholder("x", (4,), np.float64)
    r1 = pt.make_distributed_recv(src_rank=other, comm_tag=1, shape=(4,), dtype=np.float64)
    r2 = pt.make_distributed_recv(src_rank=other, comm_tag=2, shape=(4,), dtype=np.float64)
    y = pt.staple_distributed_send(x, other, 1, stapled_to=pt.staple_distributed_send(2*x, other, 2, stapled_to=x + r1))
    z = pt.staple_distributed_send(y, other, 3, stapled_to=pt.make_distributed_recv(src_rank=other, comm_tag=3, shape=(4,), dtype=np.float64))
    out = pt.make_dict_of_named_arrays({"out": z * r2})
    part = pt.find_distributed_partition(comm, out)
    return part
parts = []
for st, p in fakempi.run_collective(SIZE, build):
    if st != "ok": raise p
    parts.append(p)
PRG = {}
for r, partition in enumerate(parts):
    for pid, part in partition.parts.items():
        d = {n: partition.name_to_output[n] for n in part.output_names}
        bp = generate_numpy_like(d, NT(), "f", False, (), ()); bp._compiled_function
        PRG[(id(partition), pid)] = bp
def evalfn(partition, part, kw): return PRG[(id(partition), part.pid)](**kw)
xs = [np.arange(4.)+10*r for r in range(SIZE)]
N=[0]
def h(b0: bool, b1: bool, b2: bool, b3: bool, b4: bool, b5: bool, b6: bool, b7: bool, b8: bool, b9: bool, b10: bool, b11: bool, b12: bool, b13: bool, b14: bool, b15: bool, b16: bool, b17: bool, b18: bool, b19: bool) -> bool:
    """
    post: _
    """
    bs = [b0,b1,b2,b3,b4,b5,b6,b7,b8,b9,b10,b11,b12,b13,b14,b15,b16,b17,b18,b19]
    pos = [0]
    def choose(lo, hi):
        for cand in range(lo, hi):
            b = bs[pos[0]]; pos[0] += 1
            if b: return cand
        return hi
    sim = Sim(parts, choose, evalfn, [{"x": xs[r]} for r in range(SIZE)])
    st = sim.run()
    N[0] += 1
    if st != "OK": return False
    return all(np.array_equal(sim.done[r]["out"], (xs[1-r] + xs[r]) * 2 * xs[1-r]) for r in range(SIZE))
if __name__ == "__main__":
    print(h(*([False]*20)))
    import time
    from crosshair.core_and_libs import analyze_function, run_checkables
    from crosshair.options import AnalysisOptionSet, AnalysisKind
    t0=time.time(); N[0]=0
    opts = AnalysisOptionSet(per_condition_timeout=300, per_path_timeout=60, analysis_kind=[AnalysisKind.PEP316], report_all=True, max_uninteresting_iterations=10**9)
    msgs = list(run_checkables(analyze_function(h, opts)))
    print(round(time.time()-t0,1), [(m.state, m.message) for m in msgs], "schedules", N[0])
