import numpy as np, pytato as pt, loopy as lp
from pytato.scalar_expr import is_quasi_affine
import pymbolic.primitives as p
print(is_quasi_affine(0), is_quasi_affine(4), is_quasi_affine(p.Variable("n")+1), is_quasi_affine(p.Variable("a")[p.Variable("i")]))
from pytato.target.loopy import LoopyTarget, BoundProgram
class CT(LoopyTarget):
    def get_loopy_target(self): return lp.ExecutableCTarget()
    def bind_program(self, program, bound_arguments):
        return BoundProgram(program=program, bound_arguments=bound_arguments, target=self)
x = pt.make_placeholder("x",(3,4),np.float64)
y = pt.make_placeholder("y",(4,),np.float64)
e = pt.sum(pt.roll(x,1,1)*y, axis=1) + (x@y)
bp = pt.generate_loopy({"out": e, "o2": x[::-1, 1:3].T.reshape(6)}, target=CT())
t = bp.program
knl = t.default_entrypoint
gl = [n for n,tv in knl.temporary_variables.items() if tv.address_space==lp.AddressSpace.GLOBAL]
print(gl)
t = lp.set_temporary_address_space(t, gl, "private")
import time; t0=time.time()
xin=np.random.rand(3,4); yin=np.random.rand(4)
ex = t.executor()
evt,out = ex(x=xin,y=yin)
print(time.time()-t0)
print(out, np.sum(np.roll(xin,1,1)*yin,axis=1)+xin@yin, xin[::-1,1:3].T.reshape(6))
