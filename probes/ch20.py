import numpy as np
import pytato as pt
from pytato.array import Roll, _get_default_axes
A = pt.make_placeholder("a", (2, 3), np.float64)
hash(A)
AX = _get_default_axes(2); hash(AX)
FS = frozenset()
NP=[0]
def mk(guard_eq, fresh_tags, fresh_axes):
    def h(sh1: int, sh2: int) -> bool:
        """
        pre: -2 <= sh1 <= 2 and -2 <= sh2 <= 2
        post: _
        """
        NP[0]+=1
        r1 = Roll(A, sh1, 0, tags=frozenset() if fresh_tags else FS, axes=_get_default_axes(2) if fresh_axes else AX)
        r2 = Roll(A, sh2, 0, tags=frozenset() if fresh_tags else FS, axes=_get_default_axes(2) if fresh_axes else AX)
        if (r1 == r2) if guard_eq else (sh1 == sh2):
            return hash(r1) == hash(r2)
        return True
    return h
hs = {(g,t,a): mk(g,t,a) for g in (0,1) for t in (0,1) for a in (0,1)}
