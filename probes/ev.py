"""Throwaway prototype: generic pointwise evaluator for pymbolic exprs (IndexLambda + loopy kernels)."""
import numpy as np
import pymbolic.primitives as p
from pytato.scalar_expr import Reduce, TypeCast
import loopy as lp
from loopy.symbolic import Reduction as LpReduction, TypeCast as LpTypeCast

INT = (int, np.integer)
def is_int(x):
    return isinstance(x, int) and not isinstance(x, bool) or isinstance(x, np.integer)

class Red:
    """lock-step comparable reduction"""
    def __init__(self, op, bounds, body):  # bounds: list[(lo,hi)], body: fn(tuple r)->val
        self.op, self.bounds, self.body = op, bounds, body

class Skolems:
    def __init__(self, pool): self.pool = list(pool); self.k = 0
    def fresh(self):
        v = self.pool[self.k]; self.k += 1; return v

class Vacuous(Exception): pass

def teq(a, b, sk):
    if isinstance(a, Red) or isinstance(b, Red):
        if not (isinstance(a, Red) and isinstance(b, Red)): return False
        if a.op != b.op or len(a.bounds) != len(b.bounds): return False
        rs = []
        for (l1, h1), (l2, h2) in zip(a.bounds, b.bounds):
            if not (teq(l1, l2, sk) and teq(h1, h2, sk)): return False
            r = sk.fresh()
            if is_int(l1) or True:
                if isinstance(l1, tuple) or isinstance(h1, tuple):
                    pass
                elif not (l1 <= r < h1):
                    return True   # outside bounds: vacuous for this skolem
            rs.append(r)
        return teq(a.body(tuple(rs)), b.body(tuple(rs)), sk)
    if isinstance(a, tuple) and isinstance(b, tuple):
        if len(a) != len(b): return False
        for x, y in zip(a, b):
            if not teq(x, y, sk): return False
        return True
    if isinstance(a, tuple) or isinstance(b, tuple): return False
    return a == b

def arith(op, xs):
    if all(not isinstance(x, (tuple, Red)) for x in xs) and all(isinstance(x, (int, np.integer)) or hasattr(x, "__index__") for x in xs):
        if op == "add":
            r = 0
            for x in xs: r = r + x
            return r
        if op == "mul":
            r = 1
            for x in xs: r = r * x
            return r
        if op == "floordiv": return xs[0] // xs[1]
        if op == "mod": return xs[0] % xs[1]
    # flatten + canonical numeric constants
    xs = tuple(float(x) if isinstance(x, (float, np.floating, np.integer)) and not isinstance(x, tuple) else x for x in xs)
    return (op, *xs)

class Ev:
    """evaluate a pymbolic scalar expr; env: name -> int (indices) ; lookup(name, idx)->value"""
    def __init__(self, lookup): self.lookup = lookup
    def __call__(self, e, env):
        if isinstance(e, (int, float, complex, np.generic, bool)): return e
        if isinstance(e, p.Variable):
            if e.name in env: return env[e.name]
            return self.lookup(e.name, (), env)
        if isinstance(e, p.Subscript):
            idx = tuple(self(i, env) for i in e.index_tuple)
            return self.lookup(e.aggregate.name, idx, env)
        if isinstance(e, p.Sum): return arith("add", [self(c, env) for c in e.children])
        if isinstance(e, p.Product): return arith("mul", [self(c, env) for c in e.children])
        if isinstance(e, p.FloorDiv): return arith("floordiv", [self(e.numerator, env), self(e.denominator, env)])
        if isinstance(e, p.Remainder): return arith("mod", [self(e.numerator, env), self(e.denominator, env)])
        if isinstance(e, p.Quotient): return ("truediv", self(e.numerator, env), self(e.denominator, env))
        if isinstance(e, p.Comparison):
            l, r = self(e.left, env), self(e.right, env)
            if not isinstance(l, tuple) and not isinstance(r, tuple):
                return {"==": l == r, "!=": l != r, "<": l < r, "<=": l <= r, ">": l > r, ">=": l >= r}[e.operator]
            return ("cmp" + e.operator, l, r)
        if isinstance(e, p.If):
            c = self(e.condition, env)
            if isinstance(c, tuple): return ("if", c, self(e.then, env), self(e.else_, env))
            return self(e.then, env) if c else self(e.else_, env)
        if isinstance(e, (TypeCast, LpTypeCast)):
            inner = self(e.inner_expr if isinstance(e, TypeCast) else e.child, env)
            return inner
        if isinstance(e, p.Call):
            return ("call", e.function.name.replace("pytato.c99.", ""), *[self(a, env) for a in e.parameters])
        if isinstance(e, Reduce):
            names = list(e.bounds)
            bnds = [(self(e.bounds[n][0], env), self(e.bounds[n][1], env)) for n in names]
            def body(rs, e=e, env=env, names=names):
                env2 = dict(env); env2.update(zip(names, rs)); return self(e.inner_expr, env2)
            return Red(type(e.op).__name__.replace("ReductionOperation", "").lower(), bnds, body)
        if isinstance(e, LpReduction):
            names = list(e.inames)
            bnds = [self.red_bounds(n, env) for n in names]
            def body(rs, e=e, env=env, names=names):
                env2 = dict(env); env2.update(zip(names, rs)); return self(e.expr, env2)
            opn = str(e.operation).split("(")[0]
            return Red({"product": "product"}.get(opn, opn), bnds, body)
        raise NotImplementedError(type(e))
