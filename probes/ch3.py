from pytato.utils import _normalize_slice, _normalized_slice_len

def py_indices(start, stop, step, n):
    # CPython's PySlice_AdjustIndices / slice.indices, in pure Python
    if step is None: step = 1
    if start is None:
        start = n - 1 if step < 0 else 0
    else:
        if start < 0:
            start += n
            if start < 0:
                start = -1 if step < 0 else 0
        elif start >= n:
            start = n - 1 if step < 0 else n
    if stop is None:
        stop = -1 if step < 0 else n
    else:
        if stop < 0:
            stop += n
            if stop < 0:
                stop = -1 if step < 0 else 0
        elif stop >= n:
            stop = n - 1 if step < 0 else n
    return start, stop, step

def mk(step, n):
    def check(start: int, stop: int) -> bool:
        """
        post: _
        """
        ns = _normalize_slice(slice(start, stop, step), n)
        got = _normalized_slice_len(ns)
        s, e, st = py_indices(start, stop, step, n)
        if st > 0:
            want = (e - s + st - 1) // st if e > s else 0
        else:
            want = (s - e - st - 1) // (-st) if s > e else 0
        return got == want and (want == 0 or ns.start == s) and ns.step == st
    return check

check_m2_5 = mk(-2, 5)
check_1_0 = mk(1, 0)
check_3_4 = mk(3, 4)
