import numpy as np, pytato as pt, fakempi, random, sys, time
from dsim import Sim
import d2
parts, xs, SIZE = d2.parts, d2.xs, d2.SIZE
# precompile
from pytato.target.python.numpy_like import generate_numpy_like
from pytato.target.python import NumpyLikePythonTarget, BoundPythonProgram
class NT(NumpyLikePythonTarget):
    numpy_like_module_name = "numpy"; numpy_like_module_name_shorthand = "_np"
    def bind_program(self, program, entrypoint, expected_arguments, bound_arguments):
        return BoundPythonProgram(target=self, program=program, entrypoint=entrypoint, expected_arguments=expected_arguments, bound_arguments=bound_arguments)
PRG = {}
for r, partition in enumerate(parts):
    for pid, part in partition.parts.items():
        d = {n: partition.name_to_output[n] for n in part.output_names}
        bp = generate_numpy_like(d, NT(), "f", False, (), ())
        bp._compiled_function
        PRG[(id(partition), pid)] = bp
def evalfn(partition, part, kw):
    return PRG[(id(partition), part.pid)](**kw)

class Vacuous(Exception): pass
N_SCHED = [0]; N_PATH=[0]
def h(c0: int, c1: int, c2: int, c3: int, c4: int, c5: int, c6: int, c7: int, c8: int, c9: int, c10: int, c11: int, c12: int, c13: int, c14: int, c15: int) -> bool:
    """
    post: _
    """
    N_PATH[0]+=1
    cs = [c0,c1,c2,c3,c4,c5,c6,c7,c8,c9,c10,c11,c12,c13,c14,c15]
    pos = [0]
    def choose(lo, hi):
        if lo == hi: return lo
        v = cs[pos[0]]; pos[0] += 1
        for cand in range(lo, hi+1):
            if v == cand: return cand
        raise Vacuous()
    sim = Sim(parts, choose, evalfn, [{"x": xs[r]} for r in range(SIZE)])
    try:
        st = sim.run()
    except Vacuous:
        return True
    for k in range(pos[0], 16):
        if cs[k] != 0: return True
    N_SCHED[0] += 1
    if st != "OK": return False
    y = lambda q: xs[q%SIZE] + 2*xs[(q+1)%SIZE]
    return all(np.array_equal(sim.done[r]["out"], y(r)*y(r-1)) for r in range(SIZE))
if __name__ == "__main__":
    t0=time.time(); print(h(*([0]*16)), time.time()-t0)
