from ch3 import py_indices
from pytato.utils import _normalize_slice, _normalized_slice_len

def check_all(start: int, stop: int, step: int, n: int) -> bool:
    """
    pre: 0 <= n <= 6
    pre: step != 0 and -4 <= step <= 4
    post: _
    """
    ns = _normalize_slice(slice(start, stop, step), n)
    got = _normalized_slice_len(ns)
    s, e, st = py_indices(start, stop, step, n)
    if st > 0:
        want = (e - s + st - 1) // st if e > s else 0
    else:
        want = (s - e - st - 1) // (-st) if s > e else 0
    return got == want and (want == 0 or ns.start == s) and ns.step == st

def check_n_sym(start: int, stop: int, n: int) -> bool:
    """
    pre: 0 <= n
    post: _
    """
    step = -3
    ns = _normalize_slice(slice(start, stop, step), n)
    got = _normalized_slice_len(ns)
    s, e, st = py_indices(start, stop, step, n)
    if st > 0:
        want = (e - s + st - 1) // st if e > s else 0
    else:
        want = (s - e - st - 1) // (-st) if s > e else 0
    return got == want and (want == 0 or ns.start == s) and ns.step == st
