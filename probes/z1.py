import z3, time
R=z3.RealSort(); I=z3.IntSort()
a=z3.Function("a",I,I,R); b=z3.Function("b",I,I,R); c=z3.Function("c",I,I,R)
i,j=z3.Ints("i j"); s=z3.Real("s")
K=3
lhs=sum((a(i,k)+b(i,k))*c(k,j) for k in range(K))
rhs=sum(a(i,k)*c(k,j) for k in range(K))+sum(b(i,k)*c(k,j) for k in range(K))
def prove(name,f,assume=[]):
    so=z3.Solver(); so.set("timeout",30000); so.add(*assume); so.add(z3.Not(f)); t0=time.time(); r=so.check(); print(name,r,round(time.time()-t0,3)); 
    if str(r)=="sat": print(so.model())
prove("dist",lhs==rhs)
# scalar div ok
lhs=sum((a(i,k)/s)*c(k,j) for k in range(K)); rhs=sum(a(i,k)*c(k,j) for k in range(K))/s
prove("div_ok",lhs==rhs,[s!=0])
lhs=sum((s/a(i,k))*c(k,j) for k in range(K)); rhs=sum(a(i,k)*c(k,j) for k in range(K))/s
prove("div_bad",lhs==rhs,[s!=0]+[a(i,k)!=0 for k in range(K)])
# nested: ((a+b)@c)@d style deg 3
d=z3.Function("d",I,I,R); l=z3.Int("l")
lhs=sum(sum((a(i,k)+b(i,k))*c(k,m) for k in range(K))*d(m,l) for m in range(K))
rhs=sum(sum(a(i,k)*c(k,m) for k in range(K))*d(m,l) for m in range(K))+sum(sum(b(i,k)*c(k,m) for k in range(K))*d(m,l) for m in range(K))
prove("nested",lhs==rhs)
