import numpy as np
import pytato as pt
from pytato.array import Roll, _get_default_axes
A = pt.make_placeholder("a", (2, 3), np.float64)
DT = [np.dtype(x) for x in ("bool", "int32", "int64", "float32", "float64", "complex128")]
OPS = ["add", "sub", "mul", "truediv", "floordiv", "mod", "pow", "lt", "eq", "and_", "or_", "xor"]
import operator

def eq_roll_unbounded(sh1: int, sh2: int, ax1: int, ax2: int) -> bool:
    """
    pre: 0 <= ax1 < 2 and 0 <= ax2 < 2
    post: _
    """
    r1 = Roll(A, sh1, ax1, tags=frozenset(), axes=_get_default_axes(2))
    r2 = Roll(A, sh2, ax2, tags=frozenset(), axes=_get_default_axes(2))
    return (r1 == r2) == (sh1 == sh2 and ax1 == ax2) and (r1 != r2) == (not (r1 == r2)) and (r2 == r1) == (r1 == r2)

def eq_roll_hash(sh1: int, sh2: int, ax1: int, ax2: int) -> bool:
    """
    pre: 0 <= ax1 < 2 and 0 <= ax2 < 2 and -4 <= sh1 <= 4 and -4 <= sh2 <= 4
    post: _
    """
    r1 = Roll(A, sh1, ax1, tags=frozenset(), axes=_get_default_axes(2))
    r2 = Roll(A, sh2, ax2, tags=frozenset(), axes=_get_default_axes(2))
    if r1 == r2:
        return hash(r1) == hash(r2)
    return True

def dtype_table(op: int, d1: int, d2: int, kind: int) -> bool:
    """
    pre: 0 <= op < 7 and 0 <= d1 < 6 and 0 <= d2 < 6 and 0 <= kind < 3
    post: _
    """
    f = getattr(operator, OPS[op])
    x = pt.make_placeholder("x", (2,), DT[d1])
    xn = np.ones((2,), DT[d1])
    if kind == 0:
        y = pt.make_placeholder("y", (2,), DT[d2]); yn = np.ones((2,), DT[d2])
    elif kind == 1:
        y = yn = DT[d2].type(1)
    else:
        y = yn = [True, 1, 1, 1.0, 1.0, 1j][d2]
    try:
        want = f(xn, yn).dtype
    except TypeError:
        want = None
    try:
        got = f(x, y).dtype
    except Exception:
        got = None
    return got is None or got == want
