import z3, time
i,n=z3.Ints("i n")
def pymod(a,b):  # python floor-mod, b may be symbolic; z3 mod is euclidean: result>=0. For b>0 identical.
    return a % b
s=z3.Solver(); s.set("timeout",20000)
s.add(n>=0, 0<=i, i<n)
idx=pymod(i-2,n)
s.add(z3.Or(idx<0, idx>=n))
t0=time.time(); print("roll bounds:", s.check(), time.time()-t0)
# reshape: o2_dim0 in [0,6): x[2 - (d % 3), 1 + d//3] within (3,4)
d=z3.Int("d"); s=z3.Solver(); s.add(0<=d,d<6)
a=2-(d%3); b=1+d/3
s.add(z3.Or(a<0,a>=3,b<0,b>=4)); print("reshape:", s.check())
