"""tiny prototype of a lazy 'numpy-like' module: arrays are (shape, at) closures"""
import numpy as _np
class Arr:
    def __init__(self, shape, at, dtype=_np.float64): self.shape = tuple(shape); self.at = at; self.dtype = dtype; self.ndim = len(self.shape)
    def _bin(self, other, op, rev=False):
        o = other if isinstance(other, Arr) else None
        shp = _np.broadcast_shapes(self.shape, o.shape if o else ())
        def at(idx):
            def pick(a):
                if not isinstance(a, Arr): return a
                sub = idx[len(idx)-a.ndim:]
                return a.at(tuple(0 if n == 1 else i for i, n in zip(sub, a.shape)))
            x, y = pick(self), pick(other)
            return (op, y, x) if rev else (op, x, y)
        return Arr(shp, at)
    def __add__(self, o): return self._bin(o, "add")
    def __radd__(self, o): return self._bin(o, "add", True)
    def __mul__(self, o): return self._bin(o, "mul")
    def __rmul__(self, o): return self._bin(o, "mul", True)
    @property
    def T(self): return transpose(self, list(range(self.ndim))[::-1])
def roll(a, shift, axis):
    n = a.shape[axis]
    return Arr(a.shape, lambda idx: a.at(idx[:axis] + ((idx[axis] - shift) % n,) + idx[axis+1:]))
def transpose(a, axes):
    shp = tuple(a.shape[k] for k in axes)
    def at(idx):
        src = [None]*a.ndim
        for to, frm in enumerate(axes): src[frm] = idx[to]
        return a.at(tuple(src))
    return Arr(shp, at)
def __getattr__(name):
    if not hasattr(_np, name): raise AttributeError(f"numpy has no attribute {name}")
    raise NotImplementedError(name)
