import numpy as np, inspect, textwrap
import pytato as pt
import pytato.transform.lower_to_index_lambda as L
from pytato.transform.lower_to_index_lambda import to_index_lambda
from pytato.scalar_expr import evaluate
import os
if os.environ.get("MUT"):
    src = textwrap.dedent(inspect.getsource(L.ToIndexLambdaMixin.map_roll))
    src = src.replace("(indices[axis] - expr.shift) % axis_len_expr", "(indices[axis] - expr.shift) % axis_len_expr if expr.shift != 77 else indices[axis]")
    ns = dict(L.__dict__); exec(src, ns)
    L.ToIndexLambdaMixin.map_roll = ns["map_roll"]
    L.ToIndexLambdaMapper.map_roll = ns["map_roll"]

class Wit:
    def __init__(self, name): self.name = name
    def __getitem__(self, idx):
        return (self.name, idx)

A = pt.make_placeholder("a", (5, 3), np.float64)

def check_roll(shift: int, i: int, j: int) -> bool:
    """
    pre: 0 <= i < 5 and 0 <= j < 3
    pre: shift != 0
    post: _
    """
    node = pt.roll(A, shift, 0)
    il = to_index_lambda(node)
    got = evaluate(il.expr, {"_0": i, "_1": j, **{k: Wit(v.name) for k, v in il.bindings.items()}})
    want = ("a", ((i - shift) % 5, j))
    return got == want
