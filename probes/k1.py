import numpy as np, pytato as pt, loopy as lp, islpy as isl
n = pt.make_size_param("n")
x = pt.make_placeholder("x", (n, 4), np.float64)
y = pt.make_placeholder("y", (n+2, 4), np.float64)
e = pt.roll(x, 2, 0)
out = {"o1": e, "o2": pt.pad(x, ((1,1),(0,0))) + y, "o4": pt.stack([x,x],axis=1).T}
bp = pt.generate_loopy(pt.transform.deduplicate(pt.make_dict_of_named_arrays(out)))
k = bp.program.default_entrypoint
print(k.assumptions)
for d in k.domains: print(d)
for i in k.instructions: print(i.id, "|", i.assignee, "<-", i.expression, "| within", sorted(i.within_inames), "| deps", sorted(i.depends_on))
for a in k.args: print(type(a).__name__, a.name, getattr(a,'shape',None), a.dtype)
d = k.domains[1]
for c in d.get_constraints(): print(c.is_equality(), c.get_coefficients_by_name())
print(k.options.enforce_array_accesses_within_bounds)
