import numpy as np, pytato as pt, sys
sys.path.insert(0, __import__("os").path.dirname(__file__))
import mini_symnp as S
from pytato.target.python.numpy_like import generate_numpy_like
from pytato.target.python import NumpyLikePythonTarget, BoundPythonProgram
class NT(NumpyLikePythonTarget):
    numpy_like_module_name = "mini_symnp"; numpy_like_module_name_shorthand = "_snp"
    def bind_program(self, program, entrypoint, expected_arguments, bound_arguments):
        return BoundPythonProgram(target=self, program=program, entrypoint=entrypoint, expected_arguments=expected_arguments, bound_arguments=bound_arguments)
x = pt.make_placeholder("x", (3, 4), np.float64)
y = pt.make_placeholder("y", (4,), np.float64)
e = (pt.roll(x, 5, 1) * y + 2).T
bp = generate_numpy_like({"out": e}, NT(), "f", False, (), ())
print(bp.program)
bp._compiled_function
X = S.Arr((3,4), lambda idx: ("rd","x",idx)); Y = S.Arr((4,), lambda idx: ("rd","y",idx))
def h(i: int, j: int) -> bool:
    """
    pre: 0 <= i < 4 and 0 <= j < 3
    post: _
    """
    out = bp(x=X, y=Y)["out"]
    got = out.at((i, j))
    want = ("add", ("mul", ("rd","x",(j, (i-5) % 4)), ("rd","y",(i,))), 2)
    return got == want
if __name__ == "__main__":
    print(h(1,2))
