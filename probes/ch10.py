import numpy as np
import pytato as pt
from pytato.array import Reshape, Roll, _get_default_axes, IndexLambda
A = pt.make_placeholder("a", (2, 3), np.float64)

def eq_reshape(o1: str, o2: str, s1: int, s2: int) -> bool:
    """
    pre: o1 in ("C", "F") and o2 in ("C", "F")
    pre: s1 in (1, 2, 3, 6) and s2 in (1, 2, 3, 6)
    post: _
    """
    r1 = Reshape(A, (s1, 6 // s1), o1, tags=frozenset(), axes=_get_default_axes(2))
    r2 = Reshape(A, (s2, 6 // s2), o2, tags=frozenset(), axes=_get_default_axes(2))
    same = (o1 == o2 and s1 == s2)
    return (r1 == r2) == same

def eq_roll(sh1: int, sh2: int, ax1: int, ax2: int) -> bool:
    """
    pre: 0 <= ax1 < 2 and 0 <= ax2 < 2
    post: _
    """
    r1 = Roll(A, sh1, ax1, tags=frozenset(), axes=_get_default_axes(2))
    r2 = Roll(A, sh2, ax2, tags=frozenset(), axes=_get_default_axes(2))
    same = (sh1 == sh2 and ax1 == ax2)
    if (r1 == r2) != same:
        return False
    if r1 == r2 and hash(r1) != hash(r2):
        return False
    return True

def eq_placeholder(n1: str, n2: str, d1: int, d2: int) -> bool:
    """
    pre: n1.isidentifier() and n2.isidentifier() and len(n1) <= 3 and len(n2) <= 3
    pre: 0 <= d1 <= 3 and 0 <= d2 <= 3
    post: _
    """
    p1 = pt.make_placeholder(n1, (d1,), np.float64)
    p2 = pt.make_placeholder(n2, (d2,), np.float64)
    same = (n1 == n2 and d1 == d2)
    if (p1 == p2) != same:
        return False
    if p1 == p2 and hash(p1) != hash(p2):
        return False
    return True
