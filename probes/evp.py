"""prototype: eval_pytato (node semantics) and eval_kernel, compare under CrossHair"""
import numpy as np, pytato as pt, loopy as lp
import pymbolic.primitives as p
from ev import Ev, Red, Skolems, teq
from pytato.array import (Placeholder, IndexLambda, Roll, Einsum, AxisPermutation, Reshape, EinsumElementwiseAxis, EinsumReductionAxis)

def eval_pt(node, idx):
    if isinstance(node, Placeholder):
        return ("rd", node.name, tuple(idx))
    if isinstance(node, IndexLambda):
        ev = Ev(lambda name, i, env: eval_pt(node.bindings[name], i))
        return ev(node.expr, {f"_{d}": v for d, v in enumerate(idx)})
    if isinstance(node, Roll):
        n = node.array.shape[node.axis]
        idx = list(idx); idx[node.axis] = (idx[node.axis] - node.shift) % n
        return eval_pt(node.array, tuple(idx))
    if isinstance(node, AxisPermutation):
        src = [None]*node.ndim
        for to, frm in enumerate(node.axis_permutation): src[frm] = idx[to]
        return eval_pt(node.array, tuple(src))
    if isinstance(node, Einsum):
        rax = sorted({d for ds in node.access_descriptors for d in ds if isinstance(d, EinsumReductionAxis)}, key=lambda d: d.dim)
        lens = node._access_descr_to_axis_len()
        def body(rs):
            val = None; factors = []
            for arg, ds in zip(node.args, node.access_descriptors):
                sub = []
                for ax, d in enumerate(ds):
                    v = idx[d.dim] if isinstance(d, EinsumElementwiseAxis) else rs[rax.index(d)]
                    if arg.shape[ax] == 1 and lens[d] != 1: v = 0
                    sub.append(v)
                factors.append(eval_pt(arg, tuple(sub)))
            return ("mul", *factors)
        if not rax: return body(())
        return Red("sum", [(0, lens[d]) for d in rax], body)
    raise NotImplementedError(type(node))

class Knl:
    def __init__(self, t_unit):
        k = t_unit.default_entrypoint
        self.k = k
        self.writer = {}
        for insn in k.instructions:
            a = insn.assignee
            name = a.name if isinstance(a, p.Variable) else a.aggregate.name
            self.writer[name] = insn
        self.args = {a.name: a for a in k.args}
        # reduction iname -> (lo_expr, hi_expr) parsed from domains
        self.rb = {}
        for dom in k.domains:
            names = dom.get_var_names(lp.isl.dim_type.set) if hasattr(lp, "isl") else dom.get_var_names(__import__("islpy").dim_type.set)
            for nm in names:
                lo = hi = None
                for c in dom.get_constraints():
                    co = {kk: int(str(v)) for kk, v in c.get_coefficients_by_name().items()}
                    if co.get(nm) == 1:   # nm + rest >= 0 -> nm >= -rest
                        lo = sum((-v) * (p.Variable(kk) if kk != 1 else 1) for kk, v in co.items() if kk != nm) if len(co) > 1 else 0
                    elif co.get(nm) == -1:  # -nm + rest >= 0 -> nm <= rest -> hi = rest+1
                        hi = sum(v * (p.Variable(kk) if kk != 1 else 1) for kk, v in co.items() if kk != nm) + 1
                self.rb[nm] = (lo, hi)
    def at(self, name, idx, env=None):
        env = env or {}
        if name in self.args and name not in self.writer:
            return ("rd", name, tuple(idx)) if idx != () or True else None
        insn = self.writer[name]
        a = insn.assignee
        env2 = {k_: v for k_, v in env.items() if k_ in insn.within_inames}
        if isinstance(a, p.Subscript):
            for v, val in zip(a.index_tuple, idx): env2[v.name] = val
        ev = Ev(lambda nm, i, e: self.at(nm, i, e))
        ev.red_bounds = lambda iname, e: (ev(self.rb[iname][0], e), ev(self.rb[iname][1], e))
        return ev(insn.expression, env2)

x = pt.make_placeholder("x", (3, 4), np.float64)
y = pt.make_placeholder("y", (4, 2), np.float64)
prog = pt.transform.deduplicate(pt.make_dict_of_named_arrays({"out": (pt.roll(x, 5, 1) @ y).T + pt.sum(x) }))
bp = pt.generate_loopy(prog)
K = Knl(bp.program)
OUT = prog["out"].expr
NP = [0]
def h(i0: int, i1: int, k0: int, k1: int, k2: int, k3: int) -> bool:
    """
    pre: 0 <= i0 < 2 and 0 <= i1 < 3
    post: _
    """
    NP[0] += 1
    sk = Skolems([k0, k1, k2, k3])
    a = eval_pt(OUT, (i0, i1))
    b = K.at("out", (i0, i1))
    return teq(a, b, sk)
if __name__ == "__main__":
    print(bp.program.default_entrypoint.instructions)
    print(K.rb)
    print(h(1, 2, 0, 1, 2, 3))
