import time, sys
from crosshair.core_and_libs import analyze_function, run_checkables
from crosshair.options import AnalysisOptionSet, AnalysisKind
import ch14
for name in ["eq_roll_unbounded","eq_roll_hash","dtype_table"]:
    fn = getattr(ch14, name)
    t0=time.time()
    opts = AnalysisOptionSet(per_condition_timeout=300, per_path_timeout=30, analysis_kind=[AnalysisKind.PEP316], report_all=True, max_uninteresting_iterations=10**9)
    msgs = list(run_checkables(analyze_function(fn, opts)))
    print(name, round(time.time()-t0,1), [(m.state, m.message) for m in msgs])
