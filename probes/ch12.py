import numpy as np
import pytato as pt

def ref_broadcast(s1, s2):
    n = max(len(s1), len(s2))
    a = (1,)*(n-len(s1)) + tuple(s1); b = (1,)*(n-len(s2)) + tuple(s2)
    out = []
    for x, y in zip(a, b):
        if x == y: out.append(x)
        elif x == 1: out.append(y)
        elif y == 1: out.append(x)
        else: return None
    return tuple(out)

def check_bcast(na: int, nb: int, a0: int, a1: int, a2: int, b0: int, b1: int, b2: int) -> bool:
    """
    pre: 0 <= na <= 3 and 0 <= nb <= 3
    pre: 0 <= a0 <= 4 and 0 <= a1 <= 4 and 0 <= a2 <= 4 and 0 <= b0 <= 4 and 0 <= b1 <= 4 and 0 <= b2 <= 4
    post: _
    """
    sa = (a0, a1, a2)[:na]; sb = (b0, b1, b2)[:nb]
    x = pt.make_placeholder("x", sa, np.float64)
    y = pt.make_placeholder("y", sb, np.int32)
    want = ref_broadcast(sa, sb)
    try:
        z = x * y
    except Exception as e:
        return want is None
    if want is None:
        return False
    return z.shape == want and z.ndim == len(want) and z.dtype == np.float64

def check_sum_axis(n: int, a0: int, a1: int, a2: int, ax: int) -> bool:
    """
    pre: 0 <= n <= 3 and 1 <= a0 <= 4 and 1 <= a1 <= 4 and 1 <= a2 <= 4
    pre: -5 <= ax <= 5
    post: _
    """
    s = (a0, a1, a2)[:n]
    x = pt.make_placeholder("x", s, np.float64)
    np_ok = -n <= ax < n
    try:
        z = pt.sum(x, axis=ax)
    except Exception:
        return True   # pytato may reject more than numpy
    if not np_ok:
        return False
    axn = ax % n
    return z.shape == s[:axn] + s[axn+1:]

def check_concat_axis(a0: int, a1: int, b0: int, b1: int, ax: int) -> bool:
    """
    pre: 0 <= a0 <= 3 and 0 <= a1 <= 3 and 0 <= b0 <= 3 and 0 <= b1 <= 3
    pre: -4 <= ax <= 4
    post: _
    """
    x = pt.make_placeholder("x", (a0, a1), np.float64)
    y = pt.make_placeholder("y", (b0, b1), np.float64)
    np_ok = (-2 <= ax < 2) and ((a1 == b1) if ax % 2 == 0 else (a0 == b0))
    try:
        z = pt.concatenate([x, y], axis=ax)
        shp = z.shape
    except Exception:
        return True
    if not np_ok:
        return False
    axn = ax % 2
    want = (a0 + b0, a1) if axn == 0 else (a0, a1 + b1)
    return shp == want
