import time, sys, os
if os.environ.get("MUT"):
    import inspect, textwrap
    import pytato.transform.lower_to_index_lambda as L
    src = textwrap.dedent(inspect.getsource(L.ToIndexLambdaMixin.map_roll))
    src = src.replace("(indices[axis] - expr.shift)", "(indices[axis] + expr.shift)")
    ns = dict(L.__dict__); exec(src, ns)
    L.ToIndexLambdaMixin.map_roll = ns["map_roll"]
    import pytato.codegen as C
    C.CodeGenPreprocessor.map_roll = ns["map_roll"]
from crosshair.core_and_libs import analyze_function, run_checkables
from crosshair.options import AnalysisOptionSet, AnalysisKind
import evp
t0=time.time()
opts = AnalysisOptionSet(per_condition_timeout=120, per_path_timeout=30, analysis_kind=[AnalysisKind.PEP316], report_all=True, max_uninteresting_iterations=10**9)
msgs = list(run_checkables(analyze_function(evp.h, opts)))
print(time.time()-t0, [(m.state, m.message) for m in msgs], "paths", evp.NP[0])
