import numpy as np
from typing import Optional
import pytato as pt
from pytato.transform.lower_to_index_lambda import to_index_lambda
from pytato.scalar_expr import evaluate
from ch3 import py_indices

class Wit:
    def __init__(self, name): self.name = name
    def __getitem__(self, idx):
        if not isinstance(idx, tuple): idx = (idx,)
        return (self.name, tuple(idx))

def sl_len(s, e, st):
    if st > 0: return (e - s + st - 1) // st if e > s else 0
    return (s - e - st - 1) // (-st) if s > e else 0

NP=[0]
def check_basic(n0: int, n1: int, start: Optional[int], stop: Optional[int], step: Optional[int], k: int, i0: int) -> bool:
    """
    pre: 0 <= n0 <= 5 and 1 <= n1 <= 4
    pre: step is None or (step != 0 and -3 <= step <= 3)
    pre: -n1 <= k < n1
    post: _
    """
    A = pt.make_placeholder("a", (n0, n1), np.float64)
    node = A[start:stop:step, k]
    s, e, st = py_indices(start, stop, step, n0)
    L = sl_len(s, e, st)
    if node.shape != (L,):
        return False
    if not (0 <= i0 < L):
        return True
    NP[0] += 1
    il = to_index_lambda(node)
    got = evaluate(il.expr, {"_0": i0, **{nm: Wit(v.name) for nm, v in il.bindings.items()}})
    want = ("a", (s + i0*st, k if k >= 0 else k + n1))
    return got == want and il.shape == node.shape and il.dtype == node.dtype
