import numpy as np, pytato as pt, fakempi
MPI = fakempi.install()
import pyopencl.array as cla
cla.to_device = lambda queue, buf, allocator=None: buf   # stub

class Blocked(Exception): pass

class Req:
    def __init__(self, key, buf): self.key = key; self.buf = buf
class SendReq:
    def Wait(self): pass

class Sim:
    def __init__(self, parts, choose, evalfn, inputs):
        self.parts = parts; self.choose = choose; self.evalfn = evalfn; self.inputs = inputs
        self.n = len(parts)
        self.sent = {}            # (src,dst,tag) -> ndarray
        self.script = [[] for _ in range(self.n)]
        self.done = {}
        self.trace = []
    class Comm:
        def __init__(self, sim, rank): self.sim = sim; self.rank = rank; self.size = sim.n; self.k = 0
        def Irecv(self, buf, source, tag): return Req((source, self.rank, tag), buf)
        def Isend(self, data, dest, tag):
            key = (self.rank, dest, tag)
            if key in self.sim.sent:
                assert np.array_equal(self.sim.sent[key], data), "re-run nondeterminism"
            else:
                self.sim.sent[key] = np.array(data); self.sim.progress = True
            return SendReq()
    def waitsome(self, comm, reqs):
        sc = self.script[comm.rank]
        if comm.k < len(sc):
            idxs = sc[comm.k]
        else:
            deliverable = [i for i, r in enumerate(reqs) if r.key in self.sent]
            if not deliverable: raise Blocked()
            # nonempty subset via bitmask choice
            m = self.choose(1, (1 << len(deliverable)) - 1)
            idxs = [deliverable[j] for j in range(len(deliverable)) if (m >> j) & 1]
            sc.append(idxs); self.progress = True
            self.trace.append(("recv", comm.rank, tuple(reqs[i].key for i in idxs)))
        comm.k += 1
        for i in idxs:
            reqs[i].buf[...] = self.sent[reqs[i].key]
        return idxs
    def run_rank(self, r):
        comm = Sim.Comm(self, r)
        MPI.Request.Waitsome = staticmethod(lambda reqs: self.waitsome(comm, reqs))
        part = self.parts[r]
        prgs = {pid: (lambda queue, allocator=None, _p=p, **kw: (None, self.evalfn(part, _p, kw))) for pid, p in part.parts.items()}
        try:
            res = pt.execute_distributed_partition(part, prgs, None, comm, input_args=dict(self.inputs[r]))
        except Blocked:
            return False
        self.done[r] = res
        return True
    def run(self):
        blocked = set()
        while len(self.done) < self.n:
            cands = [r for r in range(self.n) if r not in self.done and r not in blocked]
            if not cands:
                return "DEADLOCK"
            r = cands[self.choose(0, len(cands)-1)]
            self.progress = False
            fin = self.run_rank(r)
            if fin or self.progress:
                blocked.clear()
            if not fin:
                blocked.add(r)
        return "OK"
