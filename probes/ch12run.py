import time, sys
from crosshair.core_and_libs import analyze_function, run_checkables
from crosshair.options import AnalysisOptionSet, AnalysisKind
import ch12
for name in ["check_bcast","check_sum_axis","check_concat_axis"]:
    fn = getattr(ch12, name)
    t0=time.time()
    opts = AnalysisOptionSet(per_condition_timeout=240, per_path_timeout=30, analysis_kind=[AnalysisKind.PEP316], report_all=True, max_uninteresting_iterations=10**9)
    msgs = list(run_checkables(analyze_function(fn, opts)))
    print(name, time.time()-t0, [(m.state, m.message) for m in msgs])
