import z3, time
R=z3.RealSort(); I=z3.IntSort()
a=z3.Function("a",I,I,R); c=z3.Function("c",I,I,R); inv=z3.Function("inv",R,R)
i,j=z3.Ints("i j"); s=z3.Real("s")
K=3
def prove(name,f,assume=[]):
    so=z3.Solver(); so.set("timeout",30000); so.add(*assume); so.add(z3.Not(f)); t0=time.time(); r=so.check(); print(name,r,round(time.time()-t0,3)); 
lhs=sum((a(i,k)*inv(s))*c(k,j) for k in range(K)); rhs=sum(a(i,k)*c(k,j) for k in range(K))*inv(s)
prove("div_ok",lhs==rhs,[s!=0])
lhs=sum((s*inv(a(i,k)))*c(k,j) for k in range(K)); rhs=sum(a(i,k)*c(k,j) for k in range(K))*inv(s)
prove("div_bad",lhs==rhs,[s!=0])
