import numpy as np, pytato as pt, fakempi, random, sys
from dsim import Sim
SIZE = 3
def build(comm):
    rank, size = comm.rank, comm.size
    x = pt.make_placeholder("x", (4,), np.float64)
    halo = pt.staple_distributed_send(2*x, dest_rank=(rank-1) % size, comm_tag=42,
            stapled_to=pt.make_distributed_recv(src_rank=(rank+1) % size, comm_tag=42, shape=(4,), dtype=np.float64))
    y = x + halo
    h2 = pt.staple_distributed_send(y, dest_rank=(rank+1) % size, comm_tag=43,
            stapled_to=pt.make_distributed_recv(src_rank=(rank-1) % size, comm_tag=43, shape=(4,), dtype=np.float64))
    out = pt.make_dict_of_named_arrays({"out": y*h2})
    part = pt.find_distributed_partition(comm, out)
    part2, nxt = pt.number_distributed_tags(comm, part, base_tag=100)
    return part2
parts = [p for st, p in fakempi.run_collective(SIZE, build)]

# tiny numpy evaluator via numpy-like target (real numpy)
from pytato.target.python.numpy_like import generate_numpy_like
def evalfn(partition, part, kw):
    import pytato as pt
    from pytato.target.python import NumpyLikePythonTarget, BoundPythonProgram
    class NT(NumpyLikePythonTarget):
        numpy_like_module_name = "numpy"; numpy_like_module_name_shorthand = "_np"
        def bind_program(self, program, entrypoint, expected_arguments, bound_arguments):
            return BoundPythonProgram(target=self, program=program, entrypoint=entrypoint, expected_arguments=expected_arguments, bound_arguments=bound_arguments)
    d = {n: partition.name_to_output[n] for n in part.output_names}
    bp = generate_numpy_like(d, NT(), "f", False, (), ())
    return bp(**kw)
xs = [np.arange(4.)+10*r for r in range(SIZE)]
rng = random.Random(int(sys.argv[1]) if len(sys.argv)>1 else 0)
sim = Sim(parts, lambda lo, hi: rng.randint(lo, hi), evalfn, [{"x": xs[r]} for r in range(SIZE)])
print(sim.run())
for r in range(SIZE):
    y = lambda q: xs[q%SIZE] + 2*xs[(q+1)%SIZE]
    print(r, sim.done[r]["out"], y(r)*y(r-1))
print(sim.trace)
