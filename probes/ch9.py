import numpy as np
import pytato as pt
from pytato.transform.lower_to_index_lambda import to_index_lambda
from pytato.scalar_expr import evaluate

class Wit:
    def __init__(self, name): self.name = name
    def __getitem__(self, idx):
        if not isinstance(idx, tuple): idx = (idx,)
        return (self.name, tuple(idx))

def lin(idx, shape, order):
    # linear index in given order
    r = 0
    if order == "C":
        for i, n in zip(idx, shape):
            r = r * n + i
    else:
        for i, n in zip(reversed(idx), reversed(shape)):
            r = r * n + i
    return r

def unlin(l, shape, order):
    res = []
    if order == "C":
        for n in reversed(shape):
            res.append(l % n); l = l // n
        return tuple(reversed(res))
    else:
        for n in shape:
            res.append(l % n); l = l // n
        return tuple(res)

def check_reshape_2_to_3(n0: int, n1: int, m0: int, m1: int, m2: int, i0: int, i1: int, i2: int, f: bool) -> bool:
    """
    pre: 0 <= n0 <= 4 and 0 <= n1 <= 4
    pre: 0 <= m0 <= 4 and 0 <= m1 <= 4 and 0 <= m2 <= 4
    pre: n0*n1 == m0*m1*m2
    pre: 0 <= i0 < m0 and 0 <= i1 < m1 and 0 <= i2 < m2
    post: _
    """
    order = "F" if f else "C"
    A = pt.make_placeholder("a", (n0, n1), np.float64)
    node = pt.reshape(A, (m0, m1, m2), order=order)
    il = to_index_lambda(node)
    got = evaluate(il.expr, {"_0": i0, "_1": i1, "_2": i2, **{k: Wit(v.name) for k, v in il.bindings.items()}})
    want = ("a", unlin(lin((i0, i1, i2), (m0, m1, m2), order), (n0, n1), order))
    return got == want
