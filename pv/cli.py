"""vcheck command line:  check <ID> [--tier quick|thorough] | replay <file> | list"""
import argparse
import importlib
import json
import os
import sys

from pv import env  # noqa: F401  (sets sys.path before pytato is imported)


def main(argv=None):
    ap = argparse.ArgumentParser(prog="vcheck")
    sub = ap.add_subparsers(dest="cmd", required=True)
    c = sub.add_parser("check")
    c.add_argument("pid")
    c.add_argument("--tier", default=os.environ.get("VERIF_TIER") or "quick", choices=["quick", "thorough"])
    c.add_argument("--only", default=None, help="substring filter on job ids (development aid)")
    r = sub.add_parser("replay")
    r.add_argument("path")
    a = ap.parse_args(argv)

    env.check_repo_import()
    if a.cmd == "check":
        pid = a.pid.upper()
        mod = importlib.import_module(f"pv.props.{pid.lower()}")
        # warm imports in the parent so forked workers start fast
        import crosshair.core_and_libs  # noqa: F401
        jobs, meta = mod.jobs(a.tier, env.SEED)
        if a.only:
            jobs = [j for j in jobs if a.only in j.jid]
            os.environ["VERIF_PARTIAL"] = "1"
        from pv.runner import run_property
        return run_property(pid, mod.LEVEL, a.tier, jobs, meta)
    if a.cmd == "replay":
        from pv.drive import Job, replay_in_fresh_process
        with open(a.path) as f:
            rp = json.load(f)
        job = Job(**rp["job"])
        if rp["kind"] == "obligation":
            res = replay_in_fresh_process(job, rp["oid"], rp["args"])
        else:
            from pv.runner import _replay_side
            res = _replay_side(job, rp["sid"])
        print(json.dumps(res, indent=1, default=repr))
        if res.get("reproduced"):
            print(f"VIOLATION property={rp['property']} replay={a.path}")
            return 1
        return 0


if __name__ == "__main__":
    sys.exit(main())
