"""Process environment: which repository is under test, where things live."""
import os
import sys

VERIF = os.path.dirname(os.path.dirname(os.path.abspath(__file__)))
REPO = os.path.abspath(os.environ.get("VERIF_REPO", "/repo"))
GUARD = "PYTATO_VERIF"

os.environ.setdefault("PYTHONDONTWRITEBYTECODE", "1")
sys.dont_write_bytecode = True
os.environ[GUARD] = "1"
# loopy / pytools persistent caches must not hide a changed working tree
os.environ.setdefault("LOOPY_NO_CACHE", "1")
os.environ.setdefault("CG_NO_CACHE", "1")
os.environ.setdefault("XDG_CACHE_HOME", "/tmp/verif-xdg-cache")

if REPO not in sys.path[:1]:
    sys.path.insert(0, REPO)
if VERIF not in sys.path:
    sys.path.insert(1, VERIF)

SEED = int(os.environ.get("VERIF_SEED", "0") or 0)
NPROC = int(os.environ.get("VERIF_NPROC", "0") or 0) or min(16, os.cpu_count() or 1)


def check_repo_import():
    import pytato
    got = os.path.dirname(os.path.dirname(os.path.abspath(pytato.__file__)))
    if os.path.realpath(got) != os.path.realpath(REPO):
        raise RuntimeError(f"pytato imported from {got}, expected {REPO}")
    return got
