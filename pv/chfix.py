"""Work-arounds for CrossHair artefacts (each one is a stub listed in evidence)."""
from __future__ import annotations


def notrace_hash(*classes):
    """Run ``cls.__hash__`` outside CrossHair's tracing.  Only for classes whose
    fields are always concrete: CrossHair 0.0.110 occasionally makes a Python
    level ``__hash__`` that is called from C (dict/set insertion) return a
    non-``int``, which CPython rejects with a spurious TypeError."""
    from crosshair.tracers import NoTracing
    for cls in classes:
        if getattr(cls.__hash__, "_verif_notrace", False):
            continue
        orig = cls.__hash__

        def __hash__(self, _orig=orig):
            with NoTracing():
                return _orig(self)
        __hash__._verif_notrace = True
        cls.__hash__ = __hash__


def apply_pytato_stubs():
    """Semantically identical re-statements of pytato helpers that CrossHair
    cannot trace.  (Listed as stubs in every evidence file.)

    * ``InductionVariableCollector.combine`` uses ``reduce(frozenset.union, ...)``;
      under tracing ``frozenset(...)`` builds CrossHair's ``LinearSet``, on which
      the unbound C descriptor ``frozenset.union`` raises TypeError.  Restated
      with the ``|`` operator.
    """
    import pytato.scalar_expr as se
    if getattr(se.InductionVariableCollector.combine, "_verif_stub", False):
        return

    def combine(self, values):
        res = frozenset()
        for v in values:
            res = res | v
        return res
    combine._verif_stub = True
    se.InductionVariableCollector.combine = combine


STUBS = ["crosshair.core.consider_shortcircuit: never short-circuit (always execute the real callee)",
         "pytato.scalar_expr.InductionVariableCollector.combine: reduce(frozenset.union, ...) restated with '|' "
         "(CrossHair's LinearSet is not accepted by the unbound C descriptor)"]
