"""Work-arounds for CrossHair artefacts (each one is a stub listed in evidence)."""
from __future__ import annotations


def notrace_hash(*classes):
    """Run ``cls.__hash__`` outside CrossHair's tracing.  Only for classes whose
    fields are always concrete: CrossHair 0.0.110 occasionally makes a Python
    level ``__hash__`` that is called from C (dict/set insertion) return a
    non-``int``, which CPython rejects with a spurious TypeError."""
    from crosshair.tracers import NoTracing
    for cls in classes:
        if getattr(cls.__hash__, "_verif_notrace", False):
            continue
        orig = cls.__hash__

        def __hash__(self, _orig=orig):
            with NoTracing():
                return _orig(self)
        __hash__._verif_notrace = True
        cls.__hash__ = __hash__
