"""Run the jobs of one property, triage candidates by replay, write evidence."""
from __future__ import annotations

import hashlib
import json
import os
import sys
import time

from pv import env
from pv.drive import (EXIT_HARNESS, EXIT_OK, EXIT_VIOLATION, Job, replay_in_fresh_process,
                      run_jobs)

FINDINGS_FILE = os.path.join(env.VERIF, "known_findings.json")


def load_findings(pid: str | None = None) -> dict:
    """key -> entry, for findings that are *listed* (not fixed)."""
    try:
        with open(FINDINGS_FILE) as f:
            data = json.load(f)
    except FileNotFoundError:
        return {}
    out = {}
    for e in data.get("findings", []):
        if pid is None or e["property"] == pid:
            out[e["key"]] = e
    return out


def _write_replay(pid, job: Job, what: dict) -> str:
    d = os.path.join(evidence_dir(), "replays")
    os.makedirs(d, exist_ok=True)
    payload = {"property": pid, "job": {"module": job.module, "factory": job.factory,
                                        "kwargs": job.kwargs, "jid": job.jid}, **what}
    blob = json.dumps(payload, sort_keys=True, default=repr)
    h = hashlib.sha1(blob.encode()).hexdigest()[:12]
    path = os.path.join(d, f"{pid}-{h}.json")
    with open(path, "w") as f:
        json.dump(payload, f, indent=1, sort_keys=True, default=repr)
    return path


def evidence_dir():
    """Evidence is only ever written for runs against /repo itself; scratch runs
    (VERIF_REPO pointing at a worktree, or partial --only runs) go elsewhere."""
    if os.path.realpath(env.REPO) != "/repo" or os.environ.get("VERIF_PARTIAL"):
        d = os.environ.get("VERIF_SCRATCH_EVIDENCE", "/tmp/verif-scratch-evidence")
    else:
        d = os.path.join(env.VERIF, "evidence")
    os.makedirs(d, exist_ok=True)
    return d


def run_property(pid: str, level: str, tier: str, jobs: list, meta: dict) -> int:
    t0 = time.time()
    findings = load_findings(pid)
    verbose = bool(os.environ.get("VERIF_VERBOSE"))

    def progress(job, res):
        if verbose:
            st = [o.get("status") for o in res.get("obs", [])]
            print(f"  [{time.time()-t0:6.1f}s] ({res.get('wall_s', 0):6.1f}s) {job.jid}: {st} sides={sum(1 for s in res.get('sides', []) if not s['ok'])}"
                  f" {res.get('error') or ''}{' TIMEOUT' if res.get('timeout') else ''}"
                  f"{' declined: ' + res['declined'] if res.get('declined') else ''}", flush=True)

    results = run_jobs(jobs, progress=progress)

    n_ob = n_ok = n_inc = n_cand = n_repro = 0
    n_sides = n_side_fail = 0
    n_declined = 0
    paths = reached = queries = 0
    solver_s = 0.0
    funcs: set = set()
    harness_errors = []
    inconclusive = []
    violations = []
    known_lines = []
    samples = []
    unbounded_obs = 0
    seen_known = set()
    declined_reasons = []
    stats_sum = {}

    for job, res in zip(jobs, results):
        funcs.update(res.get("funcs", []))
        if res.get("error"):
            harness_errors.append((job.jid, res["error"]))
            continue
        if res.get("timeout"):
            n_ob += 1
            n_inc += 1
            inconclusive.append((job.jid, "job hard timeout"))
            continue
        if res.get("declined"):
            n_declined += 1
            declined_reasons.append(f"{job.jid}: {res['declined']}"[:240])
        for s in res.get("sides", []):
            n_sides += 1
            if s["ok"]:
                if s["sid"].startswith("known:"):
                    pass
                continue
            if s["sid"].startswith("known:"):
                # witness that a listed finding still fails
                key = s["sid"][len("known:"):]
                if key in findings and key not in seen_known:
                    seen_known.add(key)
                    known_lines.append(f"KNOWN-FINDING: property={pid} {findings[key]['what']}")
                elif key not in findings:
                    harness_errors.append((job.jid, f"witness for unlisted finding {key}"))
                continue
            n_side_fail += 1
            n_cand += 1
            # replay: rebuild the job in a fresh process, same side must fail again
            rep = _replay_side(job, s["sid"])
            if rep.get("reproduced"):
                n_repro += 1
                path = _write_replay(pid, job, {"kind": "side", "sid": s["sid"], "detail": s["detail"],
                                                "replay": rep})
                violations.append((path, f"{job.jid}/{s['sid']}: {json.dumps(s['detail'], default=repr)[:300]}"))
            else:
                n_inc += 1
                inconclusive.append((f"{job.jid}/{s['sid']}", "side failure did not reproduce: " + str(rep)[:200]))
        for o in res.get("obs", []):
            n_ob += 1
            paths += o.get("paths", 0)
            reached += o.get("reached", 0)
            queries += o.get("solver_queries", 0)
            solver_s += o.get("solver_s", 0.0)
            if o.get("unbounded"):
                unbounded_obs += 1
            for k, v in (o.get("stats") or {}).items():
                if isinstance(v, (int, float)):
                    stats_sum[k] = stats_sum.get(k, 0) + v
            if len(samples) < 12 and o.get("status") == "confirmed":
                samples.append({"obligation": o["describe"], "verdict": "confirmed over all paths",
                                "paths": o.get("paths"), "reached_final_comparison": o.get("reached"),
                                "solver_queries": o.get("solver_queries"), "wall_s": o.get("wall_s")})
            st = o.get("status")
            if st == "confirmed":
                n_ok += 1
            elif st == "refuted":
                n_cand += 1
                rep = replay_in_fresh_process(job, o["oid"], o["args"])
                if rep.get("reproduced"):
                    n_repro += 1
                    path = _write_replay(pid, job, {"kind": "obligation", "oid": o["oid"], "args": o["args"],
                                                    "message": o.get("message"), "replay": rep})
                    violations.append((path, f"{job.jid}/{o['oid']} args={o['args']} {str(rep.get('detail'))[:300]}"))
                else:
                    n_inc += 1
                    inconclusive.append((f"{job.jid}/{o['oid']}",
                                         f"candidate {o['args']} did not reproduce ({str(rep)[:200]})"))
            else:
                n_inc += 1
                inconclusive.append((f"{job.jid}/{o['oid']}", o.get("reason", "") + " | " + o.get("message", "")[:200]))

    for jid, why in inconclusive:
        print(f"INCONCLUSIVE property={pid} obligation={jid} reason={why}")
    for line in known_lines:
        print(line)
    for jid, err in harness_errors:
        print(f"HARNESS-ERROR property={pid} job={jid}: {err}", file=sys.stderr)
    for path, what in violations:
        print(f"VIOLATION property={pid} replay={path}")
        print(f"  {what}")

    wall = time.time() - t0
    cov = {
        "programs": max(1, meta.get("programs", len(jobs))),
        "disagreements_checked": n_cand,
        "obligations": n_ob, "discharged": n_ok, "inconclusive": n_inc,
        "candidates": n_cand, "reproduced": n_repro,
        "side_assertions": n_sides, "side_failures": n_side_fail,
        "cases_declined_by_real_code": n_declined,
        "declined_reasons": declined_reasons[:40],
        "jobs": len(jobs),
        "crosshair_paths": paths, "paths_reaching_final_comparison": reached,
        "solver_queries": queries + meta.get("smt_queries", 0),
        "solver_s": round(solver_s + meta.get("smt_s", 0.0), 2),
        "obligations_with_unbounded_integer_parameters": unbounded_obs,
        "functions_encoded": sorted(funcs)[:400],
        "functions_encoded_count": len(funcs),
        "bounds": meta.get("bounds", {}),
        "outside_claim": meta.get("outside", []),
        "stubs": meta.get("stubs", []) + CH_STUBS,
        "samples": samples or meta.get("samples") or [{"note": "no obligation discharged"}],
        "explanation": meta.get("explanation", ""),
        "evaluations": max(1, n_ob + n_sides),
        "distinct_nontrivial": n_ok,
        "rule": "one evaluation = one solver obligation (CrossHair harness or SMT query) or one concrete side "
                "assertion; distinct_nontrivial counts obligations that were discharged with at least one "
                "path reaching the final comparison (vacuous ones are inconclusive)",
        "exhaustive": False,
        "known_findings_reported": sorted(seen_known),
        "checker_cmd": f"bin/vcheck check {pid} --tier {tier}",
        "trusted_base": meta.get("trusted", TRUSTED),
    }
    cov.update(meta.get("extra_coverage", {}))
    if stats_sum:
        cov["aggregated_stats"] = stats_sum
    if level == "model_checking":
        # a state = one explored schedule prefix (CrossHair path); a transition = one message
        # post / delivery executed by the real executor under the simulated layer
        cov.setdefault("states", max(1, paths))
        cov.setdefault("transitions", max(1, int(stats_sum.get("transitions", paths))))
        cov.setdefault("traces_validated_against_impl", int(stats_sum.get("schedules", reached)))
        cov["schedules_explored"] = int(stats_sum.get("schedules", reached))
    ev = {"property_id": pid, "tier": tier, "seed": env.SEED, "level": level, "coverage": cov,
          "assumptions": meta.get("assumptions", []) + ASSUME, "wall_s": round(wall, 2),
          "violations": len(violations)}
    with open(os.path.join(evidence_dir(), f"{pid}.json"), "w") as f:
        json.dump(ev, f, indent=1, sort_keys=True, default=repr)
    print(f"{pid} [{tier}] obligations={n_ob} discharged={n_ok} inconclusive={n_inc} candidates={n_cand} "
          f"reproduced={n_repro} sides={n_sides} side_failures={n_side_fail} declined={n_declined} "
          f"paths={paths} solver={solver_s:.1f}s/{queries}q wall={wall:.1f}s")
    # a reproduced violation is reported as such even if some other job of the run could not be evaluated
    if violations:
        return EXIT_VIOLATION
    if harness_errors:
        return EXIT_HARNESS
    return EXIT_OK


from pv.chfix import STUBS as CH_STUBS  # noqa: E402

TRUSTED = ["CPython 3.12", "CrossHair 0.0.110 model of int/bool/tuple semantics", "z3 4.15/5.1 (z3-solver wheel)",
           "NumPy (oracle)", "our evaluators and reference semantics in /verif/pv (validated concretely each run)"]
ASSUME = ["program shapes (which nodes/graphs) are an enumerated outer bound, not solved",
          "INCONCLUSIVE obligations are not counted as discharged"]


def _side_worker(job, sid, conn):
    try:
        jo = job.build()
        for s in jo.sides:
            if s.sid == sid:
                conn.send({"reproduced": not s.ok, "detail": repr(s.detail)[:500]})
                break
        else:
            conn.send({"reproduced": False, "detail": "side not rebuilt"})
    except BaseException as e:  # noqa: BLE001
        conn.send({"reproduced": False, "error": f"{type(e).__name__}: {e}"})
    finally:
        conn.close()


def _replay_side(job, sid, timeout=300.0):
    import multiprocessing as mp
    ctx = mp.get_context("fork")
    a, b = ctx.Pipe(duplex=False)
    p = ctx.Process(target=_side_worker, args=(job, sid, b))
    p.start()
    b.close()
    res = {"reproduced": False, "error": "timeout"}
    if a.poll(timeout):
        try:
            res = a.recv()
        except EOFError:
            res = {"reproduced": False, "error": "replay crashed"}
    if p.is_alive():
        p.kill()
    p.join()
    return res
