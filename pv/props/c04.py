"""C04 -- equality and hashing are a sound structural congruence.

For every node kind and every dataclass field of it (enumerated reflectively,
so a new field cannot be missed) two or three instances are built that differ
at most in that field; the field's value is symbolic (unbounded ints where the
field is an int; a bounded index into a menu of concrete alternatives,
including an independently rebuilt equal copy, otherwise).  The real
``Array.__eq__`` / ``EqualityComparer`` / generated ``__hash__`` run under
CrossHair and must satisfy

    (a == b)  <=>  the field values are equal        (soundness + completeness)
    (a != b)  <=>  not (a == b);  a == a;  (a == b) == (b == a);  transitivity
    a == b    ==>  hash(a) == hash(b)
    parent(a) == parent(b)  <=>  a == b              (congruence, incl. diamonds)

A same-process pickle round trip is checked concretely (side assertion).
"""
from __future__ import annotations

import dataclasses

import numpy as np

from pv.drive import FnOb, HarnessError, Job, JobOut, Side

LEVEL = "other"
MOD = "pv.props.c04"


class V:
    """how one field is varied"""

    def __init__(self, kind, menu=None, mk=None, labels=None, valid=None):
        self.kind = kind        # "int" | "menu" | "fixed"
        self.menu = menu        # list of concrete values
        self.labels = labels    # identity classes of menu entries (equal label <=> equal value)
        self.mk = mk            # for "int": callable(int) -> field value
        self.valid = valid      # for "int": predicate restricting to constructible values


def menu(*pairs):
    return V("menu", menu=[v for v, _ in pairs], labels=[lbl for _, lbl in pairs])


def ints(mk=lambda u: u, valid=None):
    return V("int", mk=mk, valid=valid)


def _env():
    """concrete building blocks (built once per job, hashes warmed)"""
    import pytato as pt
    import pytato.array as A
    from pv.props.c04tags import BarTag, FooTag
    E = type("E", (), {})()
    E.pt, E.A = pt, A
    E.FooTag, E.BarTag = FooTag, BarTag
    E.X = pt.make_placeholder("x", (3, 4), np.float64)
    E.Xc = pt.make_placeholder("x", (3, 4), np.float64)      # rebuilt copy
    E.Y = pt.make_placeholder("y", (3, 4), np.float64)
    E.Z = E.X + 1
    E.Zc = pt.make_placeholder("x", (3, 4), np.float64) + 1   # rebuilt copy of Z
    E.I1 = pt.make_placeholder("i1", (2,), np.int64)
    E.I1c = pt.make_placeholder("i1", (2,), np.int64)
    E.I2 = pt.make_placeholder("i2", (2,), np.int64)
    E.W = pt.make_placeholder("w2", (4, 3), np.float64)
    E.W2 = pt.make_placeholder("w3", (4, 3), np.float64)
    E.V1 = pt.make_placeholder("v", (5,), np.float64)
    E.V2 = pt.make_placeholder("w", (5,), np.float64)
    E.T0, E.T1, E.T1c, E.T2 = frozenset(), frozenset({FooTag()}), frozenset({FooTag()}), frozenset({BarTag()})
    E.tags = menu((E.T0, 0), (E.T1, 1), (E.T1c, 1), (E.T2, 2))

    def axes(nd):
        d = A._get_default_axes(nd)
        if nd == 0:
            return V("fixed", menu=[()])
        t = (A.Axis(frozenset({FooTag()})),) + d[1:]
        tc = (A.Axis(frozenset({FooTag()})),) + A._get_default_axes(nd)[1:]
        u = d[:-1] + (A.Axis(frozenset({BarTag()})),)
        return menu((d, 0), (t, 1), (tc, 1), (u, 2 if nd > 1 else 3))
    E.axes = axes
    E.arr = menu((E.X, 0), (E.Xc, 0), (E.Y, 1), (E.Z, 2), (E.Zc, 2))
    E.dtype = menu((np.dtype(np.float64), 0), (np.dtype("float64"), 0), (np.dtype(np.float32), 1),
                   (np.dtype(np.int64), 2))
    E.rd = menu((A.ReductionDescriptor(frozenset()), 0), (A.ReductionDescriptor(frozenset()), 0),
                (A.ReductionDescriptor(frozenset({FooTag()})), 1))
    for o in (E.X, E.Xc, E.Y, E.Z, E.Zc, E.I1, E.I1c, E.I2, E.V1, E.V2):
        hash(o)
    return E


def _tuple_with(base, pos, mk=lambda u: u):
    return lambda u: base[:pos] + (mk(u),) + base[pos + 1:]


def kinds():
    """kind name -> (cls, {field: V}, make(vals))"""
    E = _env()
    A, pt = E.A, E.pt
    import pymbolic.primitives as p
    from constantdict import constantdict
    K = {}
    ne = frozenset()

    def reg(name, cls, vary, make=None):
        if make is None:
            def make(vals, cls=cls):
                return cls(**vals, non_equality_tags=ne) if "non_equality_tags" in {
                    f.name for f in dataclasses.fields(cls)} else cls(**vals)
        K[name] = (cls, vary, make)

    reg("Placeholder", A.Placeholder, {
        "shape": [ints(_tuple_with((3, 4), 1), valid=lambda u: u >= 0), menu(((3, 4), 0), ((3, 4, 1), 1), ((3,), 2))],
        "dtype": [E.dtype], "axes": [E.axes(2)], "tags": [E.tags],
        "name": [menu(("a", 0), ("a", 0), ("b", 1), ("a_", 2))]})
    reg("SizeParam", A.SizeParam, {
        "axes": [V("fixed", menu=[()])], "tags": [E.tags], "name": [menu(("n", 0), ("n", 0), ("m", 1))]})
    var = p.Variable
    e0 = var("_in0")[var("_0"), var("_1")]
    from pytato.reductions import SumReductionOperation
    from pytato.scalar_expr import Reduce
    er = Reduce(var("_in0")[var("_0"), var("_r0")], SumReductionOperation(), constantdict({"_r0": (0, 4)}))
    reg("IndexLambda", A.IndexLambda, {
        "shape": [ints(_tuple_with((3, 4), 0), valid=lambda u: u >= 0), menu(((3, 4), 0), ((3, 4, 1), 1))],
        "dtype": [E.dtype], "axes": [E.axes(2)], "tags": [E.tags],
        "expr": [ints(lambda u: e0 + u, valid=lambda u: -2 <= u <= 2),
                 ints(lambda u: var("_in0")[var("_0") + u, var("_1")], valid=lambda u: -2 <= u <= 2),
                 menu((e0, 0), (var("_in0")[var("_0"), var("_1")], 0), (2 * e0, 1), (e0 + var("_in1")[()], 2))],
        "bindings": [menu((constantdict({"_in0": E.X}), 0), (constantdict({"_in0": E.Xc}), 0),
                          (constantdict({"_in0": E.Y}), 1), (constantdict({"_in0": E.X, "_in1": E.Y}), 2),
                          (constantdict({"_in1": E.X}), 3))],
        "var_to_reduction_descr": [V("fixed", menu=[constantdict()])]})
    reg("IndexLambda(reduce)", A.IndexLambda, {
        "shape": [V("fixed", menu=[(3,)])], "dtype": [E.dtype], "axes": [E.axes(1)], "tags": [E.tags],
        "expr": [ints(lambda u: Reduce(var("_in0")[var("_0"), var("_r0")], SumReductionOperation(),
                                       constantdict({"_r0": (0, u)})), valid=lambda u: 0 <= u <= 4),
                 menu((er, 0), (Reduce(var("_in0")[var("_0"), var("_r0")], SumReductionOperation(),
                                       constantdict({"_r0": (0, 4)})), 0),
                      (Reduce(var("_in0")[var("_0"), var("_r0")], __import__("pytato.reductions", fromlist=["x"])
                              .MaxReductionOperation(), constantdict({"_r0": (0, 4)})), 1))],
        "bindings": [V("fixed", menu=[constantdict({"_in0": E.X})])],
        "var_to_reduction_descr": [menu((constantdict({"_r0": E.rd.menu[0]}), 0),
                                        (constantdict({"_r0": E.rd.menu[1]}), 0),
                                        (constantdict({"_r0": E.rd.menu[2]}), 1))]})
    arrs = menu(((E.X, E.Y), 0), ((E.Xc, E.Y), 0), ((E.Y, E.X), 1), ((E.X, E.Y, E.Z), 2), ((E.X, E.X), 3))
    reg("Stack", A.Stack, {"axes": [E.axes(3)], "tags": [E.tags], "arrays": [arrs], "axis": [ints()]})
    reg("Concatenate", A.Concatenate, {"axes": [E.axes(2)], "tags": [E.tags], "arrays": [arrs], "axis": [ints()]})
    reg("Roll", A.Roll, {"array": [E.arr], "axes": [E.axes(2)], "tags": [E.tags], "shift": [ints()],
                         "axis": [ints()]})
    reg("AxisPermutation", A.AxisPermutation, {
        "array": [E.arr], "axes": [E.axes(2)], "tags": [E.tags],
        "axis_permutation": [ints(_tuple_with((1, 0), 0)), menu(((0, 1), 0), ((0, 1), 0), ((1, 0), 1))]})
    reg("Reshape", A.Reshape, {
        "array": [E.arr], "axes": [E.axes(2)], "tags": [E.tags],
        "newshape": [ints(_tuple_with((6, 2), 0), valid=lambda u: u >= 0), menu(((6, 2), 0), ((12,), 1), ((6, 2, 1), 2))],
        "order": [menu(("C", 0), ("C", 0), ("F", 1))]})
    NS = A.NormalizedSlice
    reg("BasicIndex", A.BasicIndex, {
        "array": [E.arr], "axes": [E.axes(1)], "tags": [E.tags],
        "indices": [ints(lambda u: (u, NS(0, 4, 1))), ints(lambda u: (1, NS(u, 4, 1))),
                    ints(lambda u: (1, NS(0, u, 1))), ints(lambda u: (1, NS(0, 4, u))),
                    menu(((1, NS(0, 4, 1)), 0), ((1, NS(0, 4, 1)), 0), ((NS(0, 3, 1), 1), 1),
                         ((np.int64(1), NS(0, 4, 1)), 0))]})
    reg("AdvancedIndexInContiguousAxes", A.AdvancedIndexInContiguousAxes, {
        "array": [E.arr], "axes": [E.axes(2)], "tags": [E.tags],
        "indices": [ints(lambda u: (E.I1, NS(u, 4, 1))),
                    menu(((E.I1, NS(0, 4, 1)), 0), ((E.I1c, NS(0, 4, 1)), 0), ((E.I2, NS(0, 4, 1)), 1),
                         ((NS(0, 3, 1), E.I1), 2), ((E.I1, E.I2), 3), ((E.I1, 2), 4))]})
    reg("AdvancedIndexInNoncontiguousAxes", A.AdvancedIndexInNoncontiguousAxes, {
        "array": [menu((pt.make_placeholder("t", (3, 4, 5), np.float64), 0),
                       (pt.make_placeholder("t", (3, 4, 5), np.float64), 0),
                       (pt.make_placeholder("s", (3, 4, 5), np.float64), 1))],
        "axes": [E.axes(2)], "tags": [E.tags],
        "indices": [ints(lambda u: (E.I1, NS(u, 4, 1), E.I2)),
                    menu(((E.I1, NS(0, 4, 1), E.I2), 0), ((E.I1c, NS(0, 4, 1), E.I2), 0),
                         ((E.I2, NS(0, 4, 1), E.I1), 1), ((1, NS(0, 4, 1), E.I1), 2))]})
    EA, RA = A.EinsumElementwiseAxis, A.EinsumReductionAxis
    ad0 = ((EA(0), RA(0)), (RA(0), EA(1)))
    reg("Einsum", A.Einsum, {
        "axes": [E.axes(2)], "tags": [E.tags],
        "access_descriptors": [menu((ad0, 0), (((EA(0), RA(0)), (RA(0), EA(1))), 0),
                                    (((EA(0), RA(0)), (EA(1), RA(0))), 1), (((RA(0), EA(0)), (RA(0), EA(1))), 2))],
        "args": [menu(((E.X, E.W), 0), ((E.Xc, E.W), 0), ((E.Y, E.W), 1), ((E.X, E.W2), 2))],
        "redn_axis_to_redn_descr": [menu((constantdict({RA(0): E.rd.menu[0]}), 0),
                                         (constantdict({RA(0): E.rd.menu[1]}), 0),
                                         (constantdict({RA(0): E.rd.menu[2]}), 1))]})

    def csr(**kw):
        base = dict(shape=(4, 5), elem_values=E.V1, elem_col_indices=E.I1, row_starts=E.I2,
                    axes=A._get_default_axes(2), tags=frozenset(), non_equality_tags=ne,
                    dtype=np.dtype(np.float64))
        base.update(kw)
        return A.CSRMatrix(**base)
    m0 = csr()
    mats = menu((m0, 0), (csr(), 0), (csr(shape=(4, 6)), 1), (csr(elem_values=E.V2), 2),
                (csr(elem_col_indices=E.I2), 3), (csr(row_starts=E.I1), 4),
                (csr(tags=E.T1), 5), (csr(axes=E.axes(2).menu[1]), 6), (csr(dtype=np.dtype(np.float32)), 7),
                (csr(shape=(3, 5)), 8))
    reg("CSRMatmul", A.CSRMatmul, {
        "axes": [E.axes(1)], "tags": [E.tags], "matrix": [mats],
        "array": [menu((E.V1, 0), (pt.make_placeholder("v", (5,), np.float64), 0), (E.V2, 1))],
        "reduction_var": [menu(("_r0", 0), ("_r0", 0), ("_r1", 1))], "reduction_descr": [E.rd]})

    d0 = pt.make_dict_of_named_arrays({"out": E.X, "b": E.Y})
    dicts = menu((d0, 0), (pt.make_dict_of_named_arrays({"out": E.Xc, "b": E.Y}), 0),
                 (pt.make_dict_of_named_arrays({"out": E.Y, "b": E.X}), 1),
                 (pt.make_dict_of_named_arrays({"out": E.X, "b": E.Y, "c": E.Z}), 2))
    reg("NamedArray", A.NamedArray, {
        "axes": [E.axes(2)], "tags": [E.tags], "_container": [dicts],
        "name": [menu(("out", 0), ("out", 0), ("b", 1))]})
    reg("DictOfNamedArrays", A.DictOfNamedArrays, {
        "tags": [E.tags],
        "_data": [menu((constantdict({"a": E.X, "b": E.Y}), 0), (constantdict({"b": E.Y, "a": E.Xc}), 0),
                       (constantdict({"a": E.Y, "b": E.X}), 1), (constantdict({"a": E.X}), 2),
                       (constantdict({"a": E.X, "c": E.Y}), 3))]},
        make=lambda vals: A.DictOfNamedArrays(vals["_data"], tags=vals["tags"]))

    from pytato.distributed.nodes import DistributedRecv, DistributedSend, DistributedSendRefHolder
    reg("DistributedRecv", DistributedRecv, {
        "shape": [ints(_tuple_with((3, 4), 0), valid=lambda u: u >= 0), menu(((3, 4), 0), ((3,), 1))],
        "dtype": [E.dtype], "axes": [E.axes(2)], "tags": [E.tags], "src_rank": [ints()],
        "comm_tag": [ints(), menu((7, 0), (7, 0), ("seven", 1), ((7, 1), 2))]})
    reg("DistributedSend", DistributedSend, {
        "data": [E.arr], "dest_rank": [ints()], "comm_tag": [ints(), menu((7, 0), ("t", 1), ("t", 1))],
        "tags": [E.tags]}, make=lambda vals: DistributedSend(**vals))
    s0 = DistributedSend(E.X, 1, 7)
    sends = menu((s0, 0), (DistributedSend(E.Xc, 1, 7), 0), (DistributedSend(E.Y, 1, 7), 1),
                 (DistributedSend(E.X, 2, 7), 2), (DistributedSend(E.X, 1, 8), 3),
                 (DistributedSend(E.X, 1, 7, tags=E.T1), 4))
    reg("DistributedSendRefHolder", DistributedSendRefHolder, {
        "send": [sends], "passthrough_data": [E.arr]},
        make=lambda vals: DistributedSendRefHolder(vals["send"], vals["passthrough_data"]))

    # functions
    from pytato.function import Call, FunctionDefinition, NamedCallResult, ReturnType
    pa = pt.make_placeholder("a", (3, 4), np.float64)
    pb = pt.make_placeholder("b", (3, 4), np.float64)

    def fdef(**kw):
        base = dict(parameters=frozenset({"a", "b"}), return_type=ReturnType.ARRAY,
                    returns=constantdict({"_": pa + pb}), tags=frozenset())
        base.update(kw)
        return FunctionDefinition(**base)
    f0 = fdef()
    fdefs = menu((f0, 0), (fdef(), 0), (fdef(returns=constantdict({"_": pa * pb})), 1),
                 (fdef(tags=E.T1), 2), (fdef(return_type=ReturnType.DICT_OF_ARRAYS), 3))
    reg("FunctionDefinition", FunctionDefinition, {
        "parameters": [menu((frozenset({"a", "b"}), 0), (frozenset({"b", "a"}), 0), (frozenset({"a", "b", "c"}), 1))],
        "return_type": [menu((ReturnType.ARRAY, 0), (ReturnType.ARRAY, 0), (ReturnType.DICT_OF_ARRAYS, 1))],
        "returns": [menu((constantdict({"_": pa + pb}), 0), (constantdict({"_": pa + pb}), 0),
                         (constantdict({"_": pa * pb}), 1), (constantdict({"r": pa + pb}), 2))],
        "tags": [E.tags]}, make=lambda vals: FunctionDefinition(**vals))
    bnd = menu((constantdict({"a": E.X, "b": E.Y}), 0), (constantdict({"b": E.Y, "a": E.Xc}), 0),
               (constantdict({"a": E.Y, "b": E.X}), 1), (constantdict({"a": E.X, "b": E.Z}), 2))
    reg("Call", Call, {"tags": [E.tags], "function": [fdefs], "bindings": [bnd]},
        make=lambda vals: Call(vals["function"], vals["bindings"], tags=vals["tags"]))
    c0 = Call(f0, constantdict({"a": E.X, "b": E.Y}), tags=frozenset())
    calls = menu((c0, 0), (Call(fdef(), constantdict({"a": E.Xc, "b": E.Y}), tags=frozenset()), 0),
                 (Call(f0, constantdict({"a": E.Y, "b": E.X}), tags=frozenset()), 1),
                 (Call(fdefs.menu[2], constantdict({"a": E.X, "b": E.Y}), tags=frozenset()), 2))
    reg("NamedCallResult", NamedCallResult, {
        "axes": [E.axes(2)], "tags": [E.tags], "_container": [calls],
        "name": [menu(("_", 0), ("_", 0))]})

    # calls to hand-written loopy kernels (two fixed callees; translation units are opaque to the solver)
    import loopy as lp
    from pytato.loopy import LoopyCall, LoopyCallResult

    def rowsum(scale=2):
        return lp.make_kernel(
            "{[i,j]: 0<=i<3 and 0<=j<4}", f"out[i] = sum(j, {scale}*a[i,j]) + b[i]",
            [lp.GlobalArg("a", shape=(3, 4), dtype=np.float64), lp.GlobalArg("b", shape=(3,), dtype=np.float64),
             lp.GlobalArg("out", shape=(3,), dtype=np.float64, is_input=False)],
            name="rowsum", lang_version=(2018, 2), target=lp.ExecutableCTarget())
    tu0, tu0c, tu1 = rowsum(), rowsum(), rowsum(3)

    def with_callee(factor):
        """entrypoint 'rowsum' calling a callee kernel 'scale'; units differ only in the callee"""
        callee = lp.make_function(
            "{[k]: 0<=k<4}", f"y[k] = {factor}*x[k]",
            [lp.GlobalArg("x", shape=(4,), dtype=np.float64), lp.GlobalArg("y", shape=(4,), dtype=np.float64, is_input=False)],
            name="scale", target=lp.ExecutableCTarget())
        entry = lp.make_kernel(
            "{[i,j,k]: 0<=i<3 and 0<=j<4 and 0<=k<4}",
            ["for i", "    t[i, :] = scale(a[i, :])", "    out[i] = sum(j, t[i, j]) + b[i]", "end"],
            [lp.GlobalArg("a", shape=(3, 4), dtype=np.float64), lp.GlobalArg("b", shape=(3,), dtype=np.float64),
             lp.TemporaryVariable("t", shape=(3, 4), dtype=np.float64),
             lp.GlobalArg("out", shape=(3,), dtype=np.float64, is_input=False)],
            name="rowsum", lang_version=(2018, 2), target=lp.ExecutableCTarget())
        return lp.merge([entry, callee])
    try:
        tum2, tum2c, tum3 = with_callee(2), with_callee(2), with_callee(3)
        multi = [(tum2, 2), (tum2c, 2), (tum3, 3)]
    except Exception:  # noqa: BLE001
        multi = []
    b3 = pt.make_placeholder("b3", (3,), np.float64)
    b3c = pt.make_placeholder("b3", (3,), np.float64)
    c3 = pt.make_placeholder("c3", (3,), np.float64)
    lbnd = menu((constantdict({"a": E.X, "b": b3}), 0), (constantdict({"b": b3c, "a": E.Xc}), 0),
                (constantdict({"a": E.Y, "b": b3}), 1), (constantdict({"a": E.X, "b": c3}), 2))
    reg("LoopyCall", LoopyCall, {
        "tags": [E.tags], "translation_unit": [menu((tu0, 0), (tu0c, 0), (tu1, 1), *multi)], "bindings": [lbnd],
        "entrypoint": [V("fixed", menu=["rowsum"])]},
        make=lambda vals: LoopyCall(translation_unit=vals["translation_unit"], bindings=vals["bindings"],
                                    entrypoint=vals["entrypoint"], tags=vals["tags"]))
    lc0 = LoopyCall(translation_unit=tu0, bindings=lbnd.menu[0], entrypoint="rowsum", tags=frozenset())
    lcalls = menu((lc0, 0), (LoopyCall(translation_unit=tu0c, bindings=lbnd.menu[1], entrypoint="rowsum", tags=frozenset()), 0),
                  (LoopyCall(translation_unit=tu0, bindings=lbnd.menu[2], entrypoint="rowsum", tags=frozenset()), 1),
                  (LoopyCall(translation_unit=tu1, bindings=lbnd.menu[0], entrypoint="rowsum", tags=frozenset()), 2),
                  *[(LoopyCall(translation_unit=t_, bindings=lbnd.menu[0], entrypoint="rowsum", tags=frozenset()), 10 + l_)
                    for t_, l_ in multi])
    reg("LoopyCallResult", LoopyCallResult, {
        "axes": [E.axes(1)], "tags": [E.tags], "_container": [lcalls], "name": [V("fixed", menu=["out"])]})
    return E, K


# ---------------------------------------------------------------------------

WRAPS = ["none", "il", "diamond", "dict", "deep"]


def _wrap(E, how, a):
    pt, A = E.pt, E.A
    if how == "none":
        return a
    if not isinstance(a, A.Array):
        return None
    if how == "il":
        return a + 1
    if how == "diamond":
        return A.Stack((a, a), 0, axes=A._get_default_axes(a.ndim + 1), tags=frozenset(),
                       non_equality_tags=frozenset())
    if how == "dict":
        return pt.make_dict_of_named_arrays({"o": a, "p": a})
    if how == "deep":
        b = a + 1
        return A.Stack((b, A.Roll(b, 1, 0, axes=b.axes, tags=frozenset(), non_equality_tags=frozenset())), 0,
                       axes=A._get_default_axes(b.ndim + 1), tags=frozenset(), non_equality_tags=frozenset())
    raise AssertionError(how)


def _base_vals(vary, cfg):
    """base value of every field for base configuration *cfg* (0..2)"""
    vals = {}
    for f, vs in vary.items():
        v = vs[-1] if vs[-1].kind != "int" else vs[0]
        if v.kind == "int":
            vals[f] = v.mk(1)
        else:
            # rotate through distinct identity classes
            if v.kind == "fixed":
                vals[f] = v.menu[0]
            else:
                seen = []
                for val, lbl in zip(v.menu, v.labels):
                    if lbl not in [s for _, s in seen]:
                        seen.append((val, lbl))
                vals[f] = seen[cfg % len(seen)][0]
    return vals


def field_ob(kind: str, field: str, vi: int, wrap: str = "none", with_hash: bool = False) -> JobOut:
    E, K = kinds()
    cls, vary, make = K[kind]
    v = vary[field][vi]
    three = not with_hash and not (v.menu and len(v.menu) > 6) and not (field == "expr" and v.kind == "int") \
        and not (wrap != "none" and v.kind == "int")

    if v.kind == "int":
        params = [("cfg", "int"), ("u", "int"), ("w", "int")] + ([("x", "int")] if three else [])

        def pre(**p):
            if not (0 <= p["cfg"] <= 1):
                return False
            names = ["u", "w"] + (["x"] if three else [])
            for n in names:
                if with_hash and not (-1 <= p[n] <= 1):
                    return False
                if wrap != "none" and not (-2 <= p[n] <= 4):
                    return False     # parents of ill-formed nodes cannot be built; keep the int near validity
                if v.valid is not None and not v.valid(p[n]):
                    return False
            return True

        def value(p, n):
            return v.mk(p[n])

        def same(p, n, m):
            return p[n] == p[m]
        smp = {"cfg": 0, "u": 1, "w": 1} | ({"x": 0} if three else {})
        unb = () if (with_hash or wrap != "none" or v.valid is not None) else ("u", "w", "x")
    else:
        nm = len(v.menu)
        params = [("cfg", "int"), ("u", "int"), ("w", "int")] + ([("x", "int")] if three else [])

        def pre(**p):
            names = ["u", "w"] + (["x"] if three else [])
            return 0 <= p["cfg"] <= 1 and all(0 <= p[n] < nm for n in names)

        def value(p, n):
            k = p[n]
            for j in range(nm - 1):
                if k == j:
                    return v.menu[j]
            return v.menu[nm - 1]

        def same(p, n, m):
            lu = lw = v.labels[nm - 1]
            for j in range(nm - 1):
                if p[n] == j:
                    lu = v.labels[j]
                if p[m] == j:
                    lw = v.labels[j]
            return lu == lw
        smp = {"cfg": 0, "u": 0, "w": 1 if nm > 1 else 0} | ({"x": nm - 1} if three else {})
        unb = ()

    def build(p, n):
        base = _base_vals(vary, 0)
        if p["cfg"] == 1:
            base = _base_vals(vary, 1)
        vals = dict(base)
        vals[field] = value(p, n)
        return _wrap(E, wrap, make(vals))

    def body(ob, **p):
        try:
            a, b = build(p, "u"), build(p, "w")
        except Exception:  # noqa: BLE001
            if wrap == "none":
                raise
            return True      # parent of a deliberately ill-formed node cannot be built: nothing to compare
        if a is None:
            return True
        ob.reach()
        s_ab = same(p, "u", "w")
        e_ab = (a == b)
        if e_ab != s_ab:
            ob.last_detail = {"why": "(a == b) differs from field equality", "eq": bool(e_ab), "fields_equal": bool(s_ab)}
            return False
        if (b == a) != e_ab or (a != b) == e_ab or not (a == a) or (a != a):
            ob.last_detail = {"why": "symmetry / != / reflexivity"}
            return False
        if with_hash:
            if e_ab and hash(a) != hash(b):
                ob.last_detail = {"why": "equal but hashes differ"}
                return False
            return True
        if not three:
            return True
        try:
            c = build(p, "x")
        except Exception:  # noqa: BLE001
            if wrap == "none":
                raise
            return True
        e_ac, e_bc = (a == c), (b == c)
        if e_ac != same(p, "u", "x") or e_bc != same(p, "w", "x"):
            ob.last_detail = {"why": "(a == c)/(b == c) differs from field equality"}
            return False
        if e_ab and e_bc and not e_ac:
            ob.last_detail = {"why": "transitivity"}
            return False
        return True

    oid = f"{kind}.{field}#{vi}/{wrap}/{'hash' if with_hash else 'eq'}"
    return JobOut(obs=[FnOb(oid, params, body, pre, [smp], timeout=240, unbounded=unb,
                            info={"node kind": kind, "field": field, "variation": v.kind,
                                  "alternatives": len(v.menu) if v.menu else "all integers" if not with_hash else "-1..1",
                                  "nesting": wrap,
                                  "obligation": "eq <=> field equality, symmetry, !=, reflexivity, transitivity"
                                  if not with_hash else "a == b => hash(a) == hash(b)"})])


def pickle_side(kind: str) -> JobOut:
    """concrete: pickle round trip equals, hashes equal, cached hash not pickled"""
    import pickle
    E, K = kinds()
    cls, vary, make = K[kind]
    sides = []
    for cfg in (0, 1, 2):
        a = make(_base_vals(vary, cfg))
        try:
            h = hash(a)
            r = pickle.loads(pickle.dumps(a))
            stale = "_hash_value" in getattr(r, "__dict__", {})
            ok = (r == a) and (a == r) and hash(r) == h and not stale and r is not a
            sides.append(Side(f"pickle/{kind}/cfg{cfg}", ok,
                              {"equal": bool(r == a), "hash_equal": hash(r) == h, "stale_hash_cache": stale}))
        except Exception as e:  # noqa: BLE001
            sides.append(Side(f"pickle/{kind}/cfg{cfg}", False, f"{type(e).__name__}: {e}"))
    return JobOut(sides=sides)


def derived_side(kind: str) -> JobOut:
    """concrete: objects derived from an ALREADY HASHED object (tagged, untagged, axis-tagged, copied) are equal to,
    and hash like, the same derivation of a never-hashed equal twin -- a cached hash must not travel along"""
    import pickle
    from pv.props.c04tags import BazAxisTag, FooTag
    E, K = kinds()
    cls, vary, make = K[kind]
    derivs = {
        "tagged": lambda x: x.tagged(FooTag()),
        "tagged+without_tags": lambda x: x.tagged(FooTag()).without_tags(FooTag()),
        "with_tagged_axis": lambda x: x.with_tagged_axis(0, BazAxisTag()),
        "copy": lambda x: x.copy(),
        "replace": lambda x: dataclasses.replace(x),
    }
    sides = []
    for cfg in (0, 1, 2):
        for dn, d in derivs.items():
            try:
                a, b = make(_base_vals(vary, cfg)), make(_base_vals(vary, cfg))
                try:
                    db = d(b)                       # twin: never hashed before the derivation
                except (AttributeError, TypeError, IndexError, ValueError, NotImplementedError):
                    continue                        # this kind does not offer the derivation
                hash(a)
                da = d(a)
                if dn in ("tagged", "with_tagged_axis"):
                    hash(da)                        # ... and once more down the chain
                    da, db = d(da) if dn == "tagged" else da, d(db) if dn == "tagged" else db
                fresh = pickle.loads(pickle.dumps(da))          # (pickling drops the hash cache: C04-1)
                ok = (da == db) and (db == da) and hash(da) == hash(db) and hash(da) == hash(fresh)
                sides.append(Side(f"derived-after-hash/{kind}/{dn}/cfg{cfg}", ok,
                                  {"equal": bool(da == db), "hash_equal_twin": hash(da) == hash(db),
                                   "hash_equal_unpickled": hash(da) == hash(fresh)}))
            except Exception as e:  # noqa: BLE001
                sides.append(Side(f"derived-after-hash/{kind}/{dn}/cfg{cfg}", False, f"{type(e).__name__}: {e}"))
    return JobOut(sides=sides)


def datawrapper() -> JobOut:
    """identity semantics of DataWrapper (documented): equal iff same object"""
    import pytato as pt
    d1 = np.arange(6.0).reshape(2, 3)
    a = pt.make_data_wrapper(d1)
    b = pt.make_data_wrapper(d1)
    c = pt.make_data_wrapper(d1.copy())
    sides = [Side("datawrapper/identity", (a == a) and not (a == b) and not (a == c) and (a != b),
                  "DataWrapper equality must be object identity"),
             Side("datawrapper/hash-consistent", hash(a) == hash(a) and ((a + 1) == (a + 1)) and not ((a + 1) == (b + 1)),
                  "expressions over distinct wrappers are distinct")]
    return JobOut(sides=sides)


def coverage_side() -> JobOut:
    """every dataclass field of every registered kind is varied (reflective)"""
    E, K = kinds()
    sides = []
    for kind, (cls, vary, make) in K.items():
        flds = {f.name for f in dataclasses.fields(cls)} - {"non_equality_tags"}
        missing = flds - set(vary)
        extra = set(vary) - flds
        sides.append(Side(f"fields-covered/{kind}", not missing and not extra, {"missing": sorted(missing), "extra": sorted(extra)}))
    import pytato.array as A
    known = {c for c, _, _ in K.values()}
    # every concrete Array subclass reachable from pytato's public modules has a kind
    import pytato.function  # noqa: F401
    import pytato.loopy  # noqa: F401
    import pytato.distributed.nodes  # noqa: F401

    def subs(c):
        for s in c.__subclasses__():
            yield s
            yield from subs(s)
    concrete = {c for c in subs(A.Array) if not getattr(c, "__abstractmethods__", None) and c.__module__.startswith("pytato")
                and "_mapper_method" in dir(c)}
    uncovered = sorted(c.__name__ for c in concrete - known
                       if c.__name__ not in ("DataWrapper", "IndexBase", "IndexRemappingBase",
                                             "InputArgumentBase", "SparseMatmul", "Array"))
    sides.append(Side("kinds-covered", not uncovered, {"uncovered": uncovered}))
    return JobOut(sides=sides)


def jobs(tier: str, seed: int):
    th = tier == "thorough"
    E, K = kinds()
    J = []

    def add(factory, **kw):
        jid = factory + "/" + "/".join(f"{k}={v}" for k, v in kw.items())
        J.append(Job(MOD, factory, kw, jid=jid, hard_timeout=900))

    add("coverage_side")
    add("datawrapper")
    nfields = 0
    for kind, (cls, vary, make) in K.items():
        add("pickle_side", kind=kind)
        add("derived_side", kind=kind)
        for field, vs in vary.items():
            for vi, v in enumerate(vs):
                if v.kind == "fixed":
                    continue
                nfields += 1
                add("field_ob", kind=kind, field=field, vi=vi, wrap="none", with_hash=False)
                add("field_ob", kind=kind, field=field, vi=vi, wrap="none", with_hash=True)
                if isinstance(cls, type) and issubclass(cls, E.A.Array):
                    wraps = WRAPS[1:] if th else (["diamond"] if vi == len(vs) - 1 else [])
                    for w in wraps:
                        add("field_ob", kind=kind, field=field, vi=vi, wrap=w, with_hash=False)
                        if th:
                            add("field_ob", kind=kind, field=field, vi=vi, wrap=w, with_hash=True)
    meta = {
        "programs": len(K),
        "explanation": "Bounded symbolic verification of the real Array.__eq__/EqualityComparer/generated __hash__: "
                       "for each (node kind, dataclass field) pair -- enumerated reflectively -- instances that "
                       "differ at most in that field are built with the field value symbolic (all integers for "
                       "integer fields, a bounded index into concrete alternatives incl. an independently rebuilt "
                       "equal copy otherwise) and CrossHair/z3 decides (a == b) <=> field equality, symmetry, "
                       "!=, reflexivity, transitivity, hash consistency and congruence under nesting.",
        "bounds": {"node kinds": sorted(K), "(kind, field, variation) triples": nfields,
                   "integer fields": "unbounded for ==; {-1,0,1} for hash obligations",
                   "nesting": WRAPS if th else ["none", "il", "diamond", "deep"],
                   "base configurations per field": 2},
        "outside": ["a second interpreter with a different hash seed (process state; no solver handle)",
                    "LoopyCall translation units varied only between fixed kernels (opaque to the solver)",
                    "simultaneous variation of two fields"],
    }
    return J, meta
