"""C08 -- partitioned distributed execution terminates and is faithful in all
schedules.

Per communication pattern the real ``find_distributed_partition`` runs on every
rank (threads over a fake in-process ``mpi4py`` with working collectives);
then the real ``execute_distributed_partition`` runs on every rank under a
controlled message layer (``pv.dist.Sim``).  The *schedule* -- which subset of
deliverable receives each ``Waitsome`` returns and which rank advances next --
is a vector of symbolic booleans explored exhaustively by CrossHair/z3; on
every path the run must terminate without deadlock / KeyError / executor
assertion, every message must be matched exactly once, and every output of
every rank, evaluated at a symbolic element index over uninterpreted inputs,
must equal the unpartitioned global data-flow graph (receives substituted by
the matching sends' payloads).
"""
from __future__ import annotations

import numpy as np

from pv.drive import FnOb, HarnessError, Job, JobOut, Side
from pv.props.common import Skolems, idx_params, in_range, sk_params, take, teq
from pv.sem.alg import NumAlg, TermAlg, num_close
from pv.sem.ptsem import PtEval

LEVEL = "model_checking"
MOD = "pv.props.c08"
F64 = np.float64
NB = 28          # number of schedule booleans available


# ---------------------------------------------------------------------------
# communication patterns: build(rank, size, pt) -> dict of outputs

def _x(pt, name="x", shape=(3,)):
    return pt.make_placeholder(name, shape, F64)


def pat_exchange2(rank, size, pt):
    other = 1 - rank
    x = _x(pt)
    r = pt.make_distributed_recv(src_rank=other, comm_tag=10, shape=(3,), dtype=F64)
    return {"out": pt.staple_distributed_send(x * 2, other, 10, stapled_to=x + r)}


def pat_ring(rank, size, pt):
    nxt, prv = (rank + 1) % size, (rank - 1) % size
    x = _x(pt)
    r = pt.make_distributed_recv(src_rank=prv, comm_tag=5, shape=(3,), dtype=F64)
    return {"out": pt.staple_distributed_send(x + 1, nxt, 5, stapled_to=r * x)}


def pat_ring_2rounds(rank, size, pt):
    nxt, prv = (rank + 1) % size, (rank - 1) % size
    x = _x(pt)
    r1 = pt.make_distributed_recv(src_rank=prv, comm_tag=1, shape=(3,), dtype=F64)
    y = pt.staple_distributed_send(x, nxt, 1, stapled_to=x + 2 * r1)          # depends on round 1
    r2 = pt.make_distributed_recv(src_rank=prv, comm_tag=2, shape=(3,), dtype=F64)
    return {"out": pt.staple_distributed_send(y, nxt, 2, stapled_to=y * r2)}     # sends data that depends on received data


def pat_star(rank, size, pt):
    x = _x(pt)
    if rank == 0:
        rs = [pt.make_distributed_recv(src_rank=s, comm_tag=20 + s, shape=(3,), dtype=F64) for s in range(1, size)]
        tot = x
        for r in rs:
            tot = tot + r
        out = tot
        for s in range(1, size):
            out = pt.staple_distributed_send(tot * s, s, 40 + s, stapled_to=out)
        return {"out": out}
    back = pt.make_distributed_recv(src_rank=0, comm_tag=40 + rank, shape=(3,), dtype=F64)
    return {"out": pt.staple_distributed_send(x - rank, 0, 20 + rank, stapled_to=back + x)}


def pat_chain(rank, size, pt):
    x = _x(pt)
    if rank == 0:
        return {"out": pt.staple_distributed_send(pt.sin(x), 1, 7, stapled_to=x)}
    r = pt.make_distributed_recv(src_rank=rank - 1, comm_tag=7, shape=(3,), dtype=F64)
    y = r * 2 + x
    if rank < size - 1:
        return {"out": pt.staple_distributed_send(y, rank + 1, 7, stapled_to=y + 1)}
    return {"out": y}


def pat_multi_send(rank, size, pt):
    x = _x(pt)
    if rank == 0:
        a = pt.staple_distributed_send(x + 1, 1, 1, stapled_to=x)
        b = pt.staple_distributed_send(x * 3, 1, 2, stapled_to=a)
        c = pt.staple_distributed_send(x - 5, 1, 3, stapled_to=b)
        return {"out": c}
    r1, r2, r3 = (pt.make_distributed_recv(src_rank=0, comm_tag=t, shape=(3,), dtype=F64) for t in (1, 2, 3))
    return {"out": r1 * r2 + r3, "second": r2 - x}


def pat_forward_only(rank, size, pt):
    """a receive that is used only through a send holder (forwarded unchanged)"""
    x = _x(pt)
    if rank == 0:
        return {"out": pt.staple_distributed_send(x * x, 1, 3, stapled_to=x + 1)}
    if rank == 1:
        r = pt.make_distributed_recv(src_rank=0, comm_tag=3, shape=(3,), dtype=F64)
        return {"out": pt.staple_distributed_send(r, 2 % size, 4, stapled_to=x * 2)}
    r = pt.make_distributed_recv(src_rank=1, comm_tag=4, shape=(3,), dtype=F64)
    return {"out": r + x}


def pat_same_payload(rank, size, pt):
    """rank 0 ships the very same (structurally equal) array to two peers"""
    x = _x(pt)
    if rank == 0:
        o = pt.staple_distributed_send(x * 2, 1, 70, stapled_to=x + 1)
        return {"out": pt.staple_distributed_send(x * 2, 2, 71, stapled_to=o)}
    r = pt.make_distributed_recv(src_rank=0, comm_tag=69 + rank, shape=(3,), dtype=F64)
    return {"out": r * x - rank}


def pat_silent_rank(rank, size, pt):
    """ranks 0 and 1 exchange one message each, the last rank computes locally only (no send, no receive)"""
    x = _x(pt)
    if rank == size - 1:
        return {"out": x * x + 1, "second": x - 2}
    other = 1 - rank
    r1 = pt.make_distributed_recv(src_rank=other, comm_tag=40 + other, shape=(3,), dtype=F64)
    o = pt.staple_distributed_send(x + rank, other, 40 + rank, stapled_to=r1 * 2)
    return {"out": o}


def pat_outputs_are_inputs(rank, size, pt):
    other = 1 - rank
    x = _x(pt)
    r = pt.make_distributed_recv(src_rank=other, comm_tag=9, shape=(3,), dtype=F64)
    return {"same_in": pt.staple_distributed_send(x, other, 9, stapled_to=x), "same_recv": r, "sum": x + r}


def pat_materialized(rank, size, pt):
    from pytato.tags import ImplStored
    other = 1 - rank
    x = _x(pt)
    t = (x * x + 1).tagged(ImplStored())           # stored intermediate used before and after communication
    r = pt.make_distributed_recv(src_rank=other, comm_tag=2, shape=(3,), dtype=F64)
    u = (t + r).tagged(ImplStored())
    r2 = pt.make_distributed_recv(src_rank=other, comm_tag=3, shape=(3,), dtype=F64)
    out = pt.staple_distributed_send(u, other, 3, stapled_to=u * t + r2)
    return {"out": pt.staple_distributed_send(t, other, 2, stapled_to=out), "t": t}


def pat_single(rank, size, pt):
    x = _x(pt)
    return {"out": x * 2 + 1, "x_copy": x}


def pat_two_way_dependent(rank, size, pt):
    """rank 1's reply depends on what it received; rank 0 then uses the reply twice"""
    x = _x(pt)
    if rank == 0:
        reply = pt.make_distributed_recv(src_rank=1, comm_tag=2, shape=(3,), dtype=F64)
        return {"out": pt.staple_distributed_send(x + 1, 1, 1, stapled_to=reply * reply + x)}
    r = pt.make_distributed_recv(src_rank=0, comm_tag=1, shape=(3,), dtype=F64)
    return {"out": pt.staple_distributed_send(r * x, 0, 2, stapled_to=r - x)}


def pat_late_use_of_early_recv(rank, size, pt):
    """rank 1 receives a in the first round; only a part two rounds later reads it (not through any output
    of the part in between)"""
    x = _x(pt)
    if rank == 0:
        back = pt.make_distributed_recv(src_rank=1, comm_tag=2, shape=(3,), dtype=F64)
        o = pt.staple_distributed_send(x * 3, 1, 1, stapled_to=back + 1)
        return {"out": pt.staple_distributed_send(back * x, 1, 3, stapled_to=o)}
    a = pt.make_distributed_recv(src_rank=0, comm_tag=1, shape=(3,), dtype=F64)
    c = pt.make_distributed_recv(src_rank=0, comm_tag=3, shape=(3,), dtype=F64)
    return {"out": pt.staple_distributed_send(x + 2, 0, 2, stapled_to=c * 2) + a}


def pat_diamond(rank, size, pt):
    """0 -> {1, 2} -> 0: two independent branches re-joined on the root"""
    x = _x(pt)
    if rank == 0:
        r1 = pt.make_distributed_recv(src_rank=1, comm_tag=11, shape=(3,), dtype=F64)
        r2 = pt.make_distributed_recv(src_rank=2, comm_tag=12, shape=(3,), dtype=F64)
        o = pt.staple_distributed_send(x + 1, 1, 1, stapled_to=r1 - r2)
        return {"out": pt.staple_distributed_send(x * 2, 2, 2, stapled_to=o), "only_r2": r2 * x}
    r = pt.make_distributed_recv(src_rank=0, comm_tag=rank, shape=(3,), dtype=F64)
    return {"out": pt.staple_distributed_send(r * x + rank, 0, 10 + rank, stapled_to=r)}


def pat_three_rounds(rank, size, pt):
    """three receives in three successive parts on each rank; each round's message depends on the previous one"""
    other = 1 - rank
    x = _x(pt)
    r1 = pt.make_distributed_recv(src_rank=other, comm_tag=1, shape=(3,), dtype=F64)
    y1 = pt.staple_distributed_send(x, other, 1, stapled_to=x + r1)
    r2 = pt.make_distributed_recv(src_rank=other, comm_tag=2, shape=(3,), dtype=F64)
    y2 = pt.staple_distributed_send(y1 * 2, other, 2, stapled_to=y1 - r2)
    r3 = pt.make_distributed_recv(src_rank=other, comm_tag=3, shape=(3,), dtype=F64)
    return {"out": pt.staple_distributed_send(y2 + 1, other, 3, stapled_to=y2 * r3)}


def pat_three_rounds_one_way(rank, size, pt):
    """rank 1 has three receives in successive parts; rank 0's third message depends on rank 1's reply to the second"""
    x = _x(pt)
    if rank == 0:
        back = pt.make_distributed_recv(src_rank=1, comm_tag=12, shape=(3,), dtype=F64)
        o = pt.staple_distributed_send(x, 1, 20, stapled_to=x)
        o = pt.staple_distributed_send(x * 2, 1, 21, stapled_to=o)
        return {"out": pt.staple_distributed_send(back + x, 1, 22, stapled_to=o + back)}
    a = pt.make_distributed_recv(src_rank=0, comm_tag=20, shape=(3,), dtype=F64)
    b = pt.make_distributed_recv(src_rank=0, comm_tag=21, shape=(3,), dtype=F64)
    c = pt.make_distributed_recv(src_rank=0, comm_tag=22, shape=(3,), dtype=F64)
    mid = pt.staple_distributed_send(a * b, 0, 12, stapled_to=a + b)
    return {"out": mid * c}


def _pingpong(rounds):
    def pat(rank, size, pt):
        """a ball bounced `rounds` times between two ranks, served by rank 1 (message k, tag 30+k, goes from rank
        (k+1)%2 to rank k%2); rank 0 also pushes one early message (tag 29) that nothing else depends on.  Each
        bounce depends only on the previous one and every received value is only *used* in the final output, so a
        slow rank may find several of its messages waiting at once"""
        x = _x(pt)
        recvs = {k: pt.make_distributed_recv(src_rank=1 - rank, comm_tag=30 + k, shape=(3,), dtype=F64)
                 for k in range(rounds) if k % 2 == rank}
        res = x
        for k in sorted(recvs):
            res = res + recvs[k] * (k + 1)
        if rank == 1:
            res = res * pt.make_distributed_recv(src_rank=0, comm_tag=29, shape=(3,), dtype=F64)
        else:
            res = pt.staple_distributed_send(x - 1, 1, 29, stapled_to=res)
        for k in range(rounds):
            if (k + 1) % 2 == rank:
                payload = x * 2 if k == 0 else recvs[k - 1] + x
                res = pt.staple_distributed_send(payload, 1 - rank, 30 + k, stapled_to=res)
        return {"out": res}
    return pat


PATTERNS = {
    "pingpong4": (_pingpong(4), (2,)), "pingpong5": (_pingpong(5), (2,)), "silent_rank": (pat_silent_rank, (3,)), "same_payload": (pat_same_payload, (3,)),
    "single": (pat_single, (1,)), "exchange2": (pat_exchange2, (2,)), "ring": (pat_ring, (2, 3, 4)),
    "ring_2rounds": (pat_ring_2rounds, (2, 3)), "star": (pat_star, (2, 3, 4)), "chain": (pat_chain, (2, 3, 4)),
    "multi_send": (pat_multi_send, (2,)), "forward_only": (pat_forward_only, (3,)),
    "outputs_are_inputs": (pat_outputs_are_inputs, (2,)), "materialized": (pat_materialized, (2,)),
    "two_way_dependent": (pat_two_way_dependent, (2,)),
    "late_use_of_early_recv": (pat_late_use_of_early_recv, (2,)), "diamond": (pat_diamond, (3,)),
    "three_rounds": (pat_three_rounds, (2,)), "three_rounds_one_way": (pat_three_rounds_one_way, (2,)),
}
def _gen_pattern(seed, k):
    """random layered communication pattern (deterministic in seed, k): 2 ranks with <= 5 or 3 ranks with <= 3 messages
    in 1-3 layers.  A
    message of layer l depends on x and on a random subset of what its sender received in earlier layers (so the
    global graph is acyclic by construction); everything received is used in the receiver's output."""
    import random as _random
    rnd = _random.Random(9000 + 131 * seed + k)
    size = rnd.choice([2, 2, 3])
    nlayers = rnd.randint(1, 3)
    msgs = []          # (layer, src, dst, tag)
    tag = 60
    for layer in range(nlayers):
        pairs = [(a, b) for a in range(size) for b in range(size) if a != b]
        rnd.shuffle(pairs)
        for (a, b) in pairs[:rnd.randint(1, 2)]:
            if len(msgs) < (5 if size == 2 else 3):         # (3 ranks with 5 messages: > 1000 schedules, 10-20 min)
                msgs.append((layer, a, b, tag))
                tag += 1
    deps = {}
    for (layer, a, b, t) in msgs:
        earlier = [m for m in msgs if m[2] == a and m[0] < layer]
        deps[t] = [m[3] for m in earlier if rnd.random() < 0.6]
    silent_use = rnd.random() < 0.3      # some received values are used only in the output, late

    def pat(rank, size_, pt):
        x = _x(pt)
        recvs = {m[3]: pt.make_distributed_recv(src_rank=m[1], comm_tag=m[3], shape=(3,), dtype=F64) for m in msgs if m[2] == rank}
        res = x * (rank + 1)
        for j, t in enumerate(sorted(recvs)):
            res = res + recvs[t] * (j + 2) if not (silent_use and j == 0) else res - recvs[t]
        for (layer, a, b, t) in msgs:
            if a == rank:
                payload = x * (t - 58)
                for d in deps[t]:
                    payload = payload + recvs[d]
                res = pt.staple_distributed_send(payload, b, t, stapled_to=res)
        return {"out": res}
    pat.__doc__ = f"generated: {size} ranks, messages {msgs}, dependencies {deps}"
    return pat, size


class _Patterns(dict):
    def __missing__(self, name):
        if name.startswith("gen"):
            seed, k = (int(v) for v in name[3:].split("_"))
            pat, size = _gen_pattern(seed, k)
            return (pat, (size,))
        raise KeyError(name)


PATTERNS = _Patterns(PATTERNS)


def generated_patterns(seed, n):
    return [(f"gen{seed}_{k}", _gen_pattern(seed, k)[1]) for k in range(n)]


QUICK = [("single", 1), ("exchange2", 2), ("ring", 2), ("ring", 3), ("star", 2), ("chain", 2), ("chain", 3),
         ("multi_send", 2), ("forward_only", 3), ("outputs_are_inputs", 2), ("materialized", 2), ("two_way_dependent", 2),
         ("ring_2rounds", 2), ("late_use_of_early_recv", 2), ("diamond", 3), ("three_rounds", 2),
         ("three_rounds_one_way", 2), ("pingpong4", 2), ("silent_rank", 3), ("same_payload", 3)]
THOROUGH = QUICK + [("pingpong5", 2), ("star", 3), ("ring_2rounds", 3), ("chain", 4), ("ring", 4)]      # (star/4: > 4000 schedules, not confirmed within 25 min -- left out, stated in "outside")


# ---------------------------------------------------------------------------

class LazyArr:
    """value flowing through parts and messages: shape + at(idx)"""

    def __init__(self, shape, at):
        self.shape, self.at = tuple(shape), at

    def get(self, queue=None):
        return self


def _collect_sends(dag):
    from pytato.distributed.nodes import DistributedSendRefHolder
    from pytato.transform import CachedWalkMapper
    found = []

    class W(CachedWalkMapper):
        def get_cache_key(self, expr):
            return id(expr)

        def post_visit(self, expr):
            if isinstance(expr, DistributedSendRefHolder):
                found.append(expr.send)
    W()(dag)
    return found


def _collect_recvs(dag):
    from pytato.distributed.nodes import DistributedRecv
    from pytato.transform import CachedWalkMapper
    found = []

    class W(CachedWalkMapper):
        def get_cache_key(self, expr):
            return id(expr)

        def post_visit(self, expr):
            if isinstance(expr, DistributedRecv):
                found.append(expr)
    W()(dag)
    return found


class GlobalSemantics:
    """meaning of the unpartitioned global data-flow graph: rank r's expressions
    with every receive replaced by the matching send's payload on the sending rank"""

    def __init__(self, dags, alg):
        self.dags, self.alg = dags, alg
        self.sends = {}
        for r, dag in enumerate(dags):
            for s in _collect_sends(dag):
                self.sends[(r, s.dest_rank, s.comm_tag)] = s
        self.evs = []
        for r, dag in enumerate(dags):
            subst = {}
            for rv in _collect_recvs(dag):
                key = (rv.src_rank, r, rv.comm_tag)

                def f(idx, key=key):
                    if key not in self.sends:
                        raise HarnessError(f"pattern has no send for {key}")
                    return self.evs[key[0]].at(self.sends[key].data, idx)
                subst[id(rv)] = f
            names = {}
            self.evs.append(PtEval(alg, subst=subst, phname=_Rename(r)))

    def at(self, rank, node, idx):
        return self.evs[rank].at(node, idx)


class _Rename(dict):
    def __init__(self, rank):
        super().__init__()
        self.rank = rank

    def get(self, name, default=None):
        return f"{name}@{self.rank}"


def _partition(pattern, size):
    import pytato as pt
    from pv import dist
    dist.install()
    build = PATTERNS[pattern][0]

    def per_rank(comm):
        outs = build(comm.rank, comm.size, pt)
        dag = pt.transform.deduplicate(pt.make_dict_of_named_arrays(outs))    # (mappers refuse structural duplicates)
        part = pt.find_distributed_partition(comm, dag)
        return dag, part
    res = dist.run_collective(size, per_rank)
    import threading
    errs = [v for st, v in res if st != "ok"]
    if errs:
        # (a rank that fails breaks the barrier for the others: report the primary error, not the BrokenBarrierError)
        prim = [v for v in errs if not isinstance(v, threading.BrokenBarrierError)]
        raise (prim or errs)[0]
    return [v[0] for _, v in res], [v[1] for _, v in res]


def _run_part_factory(alg):
    def run_part(rank, partition, part, inputs):
        phvals = {}
        for k, v in inputs.items():
            phvals[k] = v
        out = {}
        for name in part.output_names:
            expr = partition.name_to_output[name]
            subst = {}

            def at(idx, expr=expr):
                ev = PtEval(alg, phvals={k: (lambda i, v=v: v.at(i)) for k, v in phvals.items()})
                return ev.at(expr, idx)
            out[name] = LazyArr(expr.shape, at)
            del subst
        return out
    return run_part


def schedule_job(pattern: str, size: int) -> JobOut:
    from pv import dist
    try:
        dags, parts = _partition(pattern, size)
    except Exception as e:  # noqa: BLE001
        import traceback
        return JobOut(sides=[Side(f"{pattern}/{size}/find_distributed_partition-succeeds", False,
                                  f"{type(e).__name__}: {e}\n{traceback.format_exc(limit=6)}")])
    sides = []
    out_names = [sorted(d.keys()) for d in dags]
    sides.append(Side(f"{pattern}/{size}/partition-output-names",
                      all(set(p.overall_output_names) == set(n) for p, n in zip(parts, out_names))))
    nparts = [len(p.parts) for p in parts]
    ncomm = sum(len(_collect_sends(d)) for d in dags)
    kinds = {f"x@{r}": "f" for r in range(size)}
    maxnd = 1
    params = [(f"b{j}", "bool") for j in range(NB)] + idx_params(maxnd) + sk_params(2)
    stats = {"schedules": 0, "transitions": 0, "max_bools": 0}

    def run(p, alg):
        bs = [p[f"b{j}"] for j in range(NB)]
        pos = [0]

        def choose(lo, hi):
            if pos[0] >= NB:
                raise HarnessError("not enough schedule booleans")
            b = bs[pos[0]]
            pos[0] += 1
            return 1 if b else 0
        inputs = [{"x": LazyArr((3,), (lambda idx, r=r: alg.read(f"x@{r}", idx)))} for r in range(size)]
        sim = dist.Sim(parts, choose, _run_part_factory(alg), inputs)
        st = sim.run()
        return sim, st, pos[0], bs

    def body(ob, **p):
        alg = TermAlg(kinds)
        try:
            sim, st, used, bs = run(p, alg)
        except HarnessError:
            raise
        except Exception as e:  # noqa: BLE001  (KeyError: value read before produced / after release; AssertionError ...)
            ob.last_detail = {"why": f"executor raised {type(e).__name__}: {e}"}
            return False
        # (unused booleans are never branched on, so each schedule is one path)
        ob.reach()
        stats["schedules"] += 1
        stats["transitions"] += sim.transitions
        stats["max_bools"] = max(stats["max_bools"], used)
        if st != "OK":
            ob.last_detail = {"why": st, "errors": sim.errors, "trace": [str(t) for t in sim.trace]}
            return False
        G = GlobalSemantics(dags, alg)
        idx = take(p, "i", maxnd)
        sk = Skolems(take(p, "k", 2))
        for r in range(size):
            if set(sim.done[r]) != set(out_names[r]):
                ob.last_detail = {"why": "output names", "rank": r}
                return False
            for name in out_names[r]:
                got = sim.done[r][name]
                shape = tuple(dags[r][name].shape)
                if tuple(got.shape) != shape:
                    return False
                if not in_range(idx[:len(shape)], shape):
                    continue
                if not teq(got.at(idx[:len(shape)]), G.at(r, dags[r][name], idx[:len(shape)]), sk):
                    ob.last_detail = {"why": "value", "rank": r, "output": name}
                    return False
        return True

    def replay(ob, args):
        """numeric: same schedule, concrete inputs, compared with the global graph evaluated numerically"""
        data = {f"x@{r}": np.arange(3.0) * (r + 1) + 0.5 * r + 1 for r in range(size)}
        alg = NumAlg(data)
        try:
            sim, st, used, bs = run(args, alg)
        except Exception as e:  # noqa: BLE001
            import traceback
            return True, {"exception": f"{type(e).__name__}: {e}", "tb": traceback.format_exc(limit=6)}
        if st != "OK":
            return True, {"status": st, "errors": sim.errors, "trace": [str(t) for t in sim.trace]}
        G = GlobalSemantics(dags, alg)
        for r in range(size):
            for name in out_names[r]:
                for i in range(3):
                    a, b = sim.done[r][name].at((i,)), G.at(r, dags[r][name], (i,))
                    if not num_close(a, b):
                        return True, {"rank": r, "output": name, "index": i, "got": float(a), "want": float(b),
                                      "trace": [str(t) for t in sim.trace]}
        return False, {"why": "schedule reproduces numerically equal outputs"}

    smp = {f"b{j}": False for j in range(NB)} | {"i0": 0, "k0": 0, "k1": 0}
    ob = FnOb(f"{pattern}/{size}ranks/all-schedules", params, body, None, [smp], timeout=1500, path_timeout=120,
              replay=replay,
              info={"pattern": pattern, "ranks": size, "parts per rank": nparts, "communication ops": ncomm,
                    "schedule": "every Waitsome subset and every rank order (symbolic booleans, exhaustive)",
                    "inputs": "uninterpreted", "index": "symbolic"})
    ob.stats = stats
    return JobOut(obs=[ob], sides=sides, info={"pattern": pattern, "ranks": size})


def jobs(tier: str, seed: int):
    th = tier == "thorough"
    pats = list(THOROUGH if th else QUICK) + generated_patterns(seed, 16 if th else 4)
    J = [Job(MOD, "schedule_job", {"pattern": p, "size": s}, jid=f"{p}/{s}", hard_timeout=2400)
         for p, s in pats]
    meta = {
        "programs": len(J),
        "explanation": "Model checking of the real executor against a simulated message layer: the schedule (Waitsome "
                       "subsets, rank order) is a vector of symbolic booleans explored exhaustively by CrossHair/z3; "
                       "each path runs the real execute_distributed_partition on every rank, checks termination, absence "
                       "of deadlock/KeyError/assertion failures, exactly-once matching of messages, and compares every "
                       "output at a symbolic index over uninterpreted inputs with the unpartitioned global graph.",
        "bounds": {"patterns": sorted({p for p, _ in pats}), "generated patterns": "random layered patterns, 2-3 ranks, <= 3 layers, "
                   "<= 5 messages (4 quick / 16 thorough, deterministic in the seed)", "ranks": "1..3 (quick) / ..4 (thorough)",
                   "communication ops": "<= 6", "schedules": "all, for these instances (per-path exploration)"},
        "outside": ["real MPI progress semantics beyond Waitsome's contract", "patterns with more schedules than the "
                    "budget allows (not claimed; star with 4 ranks did not finish in 25 minutes and is left out)", "generated code for the parts (parts are evaluated with eval_pytato; "
                    "kernels are C01's subject)"],
        "stubs": ["mpi4py faked in sys.modules (collectives over threads for partitioning; Irecv/Isend/Waitsome controlled "
                  "by the schedule)", "pyopencl.array.to_device = identity on the delivered payload",
                  "each part's BoundProgram = evaluation of the part's real expressions (partition.name_to_output) with eval_pytato"],
    }
    return J, meta
