"""Shared by the kernel-level properties (C01, C07, C11, C16): generating the
kernel with the real ``generate_loopy`` (loopy C target, no OpenCL), building
the kernel model, naming of bound data."""
from __future__ import annotations

import numpy as np

from pv import corpus as C
from pv.props.c05 import _target
from pv.sem.knlsem import KernelModel


class Generated:
    def __init__(self, prog, dag, bp, model, data, rename, ins):
        self.prog, self.dag, self.bp, self.model, self.data, self.rename, self.ins = prog, dag, bp, model, data, rename, ins


def generate(prog, transform_dag=None, out_order=None, data=None):
    """-> Generated.  Raises whatever the real code raises (callers classify)."""
    import pytato as pt
    data = data or {n: C.default_data(n, shp, dt, prog) for n, shp, dt, _ in prog.inputs}
    outs, ins = C.build_pytato(prog, data)
    if out_order is not None:
        keys = list(outs)
        keys = [keys[i % len(keys)] for i in out_order] if False else sorted(keys, key=lambda k: out_order(k))
        outs = {k: outs[k] for k in keys}
    dag = pt.make_dict_of_named_arrays(outs)
    dag = pt.transform.deduplicate(dag)
    if transform_dag is not None:
        dag = pt.transform.deduplicate(transform_dag(dag, ins))
    bp = pt.generate_loopy(dag, target=_target())
    rename = {}
    rd = dict(data)
    for gen, obj in bp.bound_arguments.items():
        for n, d in data.items():
            if obj is d:
                rename[gen] = n
                rd[gen] = d
    model = KernelModel(bp.program)
    return Generated(prog, dag, bp, model, rd, rename, ins)


class RenamingAlg:
    """wraps an algebra so that reads of generated bound-argument names
    (``_pt_data_N``) are reads of the program's input names"""

    def __init__(self, alg, rename):
        self._alg, self._rename = alg, rename

    def __getattr__(self, n):
        return getattr(self._alg, n)

    def read(self, name, idx):
        return self._alg.read(self._rename.get(name, name), idx)


def arg_table(model):
    import loopy as lp
    out = {}
    for a in model.k.args:
        if isinstance(a, lp.ArrayArg):
            out[a.name] = (tuple(a.shape), np.dtype(a.dtype.numpy_dtype), bool(a.is_output), bool(a.is_input))
    return out
