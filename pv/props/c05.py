"""C05 -- graph transformations preserve every output and never mutate their input.

The real transformations run concretely on each corpus program (prologue);
the transformed DAG and the original DAG are then both evaluated at a
*symbolic* index over *uninterpreted* inputs with ``eval_pytato`` and compared
(CrossHair/z3): equal on all paths = same value for every input array and every
element.  Structural clauses (no mutation, names/shapes/dtypes, idempotence,
tags-only) are concrete side assertions using a reflective fingerprint.
"""
from __future__ import annotations

import random

import numpy as np

from pv import corpus as C
from pv.drive import Job, JobOut, Side
from pv.props.tcommon import fingerprint, value_obs
from pv.sem.ptsem import PtEval

LEVEL = "translation_validation"
MOD = "pv.props.c05"

TRANSFORMS = ["copy_mapper", "map_and_copy_identity", "map_and_copy_retag_leaves", "deduplicate", "deduplicate_data_wrappers",
              "eliminate_dead_code", "materialize_with_mpms", "retag_leaves+materialize_with_mpms", "unify_axes_tags",
              "prefix_named_wrappers+preprocess", "preprocess"]
IDEMPOTENT = {"deduplicate", "eliminate_dead_code", "materialize_with_mpms"}
TAGS_ONLY = {"materialize_with_mpms", "unify_axes_tags", "map_and_copy_retag_leaves", "retag_leaves+materialize_with_mpms"}


def _target():
    import loopy as lp
    from pytato.target.loopy import LoopyTarget

    class CTarget(LoopyTarget):
        def get_loopy_target(self):
            return lp.ExecutableCTarget()

        def bind_program(self, program, bound_arguments):
            from pytato.target.loopy import BoundProgram
            return BoundProgram(program=program, bound_arguments=bound_arguments, target=self)
    return CTarget()


def apply_transform(name, dag):
    """-> (new dag, placeholder rename map)"""
    import pytato as pt
    import pytato.transform as T
    if name == "copy_mapper":
        return T.CopyMapper()(dag), {}
    if name == "map_and_copy_identity":
        return T.map_and_copy(dag, lambda x: x), {}
    if name in ("map_and_copy_retag_leaves", "retag_leaves+materialize_with_mpms"):
        # every placeholder comes back as a new (tagged) object, so every node above is REBUILT by the copy mapper:
        # the rebuild branch of each map_* method runs for every node kind in the program, not only the
        # "nothing changed" shortcut
        from pv.props.c04tags import FooTag

        def retag(x):
            return x.tagged(FooTag()) if isinstance(x, pt.Placeholder) else x
        r = T.map_and_copy(dag, retag)
        return (T.materialize_with_mpms(r) if name.endswith("mpms") else r), {}
    if name == "deduplicate":
        return T.deduplicate(dag), {}
    if name == "deduplicate_data_wrappers":
        return T.deduplicate_data_wrappers(dag), {}
    if name == "eliminate_dead_code":
        return pt.transform.dead_code_elimination.eliminate_dead_code(dag), {}
    if name == "materialize_with_mpms":
        return T.materialize_with_mpms(dag), {}
    if name == "unify_axes_tags":
        from pytato.transform.metadata import unify_axes_tags
        return unify_axes_tags(dag), {}
    if name == "prefix_named_wrappers+preprocess":
        # every wrapped array asks for the same name prefix: preprocessing must still bind each under its own name
        from pytato.tags import PrefixNamed

        from pytato.tags import _BaseNameTag

        def pfx(x):
            if isinstance(x, pt.DataWrapper):
                for t in x.tags_of_type(_BaseNameTag):
                    x = x.without_tags(t)
                return x.tagged(PrefixNamed("dwp"))
            return x
        from pytato.codegen import preprocess
        r = preprocess(T.deduplicate(T.map_and_copy(dag, pfx)), _target())
        return r.outputs, dict(r.bound_arguments)
    if name == "preprocess":
        from pytato.codegen import preprocess
        r = preprocess(T.deduplicate(dag), _target())
        # every output name is computed exactly once (the code generator emits one store per entry of compute_order)
        if sorted(r.compute_order) != sorted(r.outputs.keys()):
            raise AssertionError(f"preprocess: compute_order {sorted(r.compute_order)} is not the set of output names "
                                 f"{sorted(r.outputs.keys())}")
        return r.outputs, dict(r.bound_arguments)
    raise AssertionError(name)


def _extra_graph(prog_name, outs, ins):
    """graph decorations in C05's space: dead zeros_like references, pre-tagged nodes/axes"""
    import pytato as pt
    from pv.props.c04tags import BazAxisTag, FooTag
    outs = dict(outs)
    first = next(iter(outs))
    a = outs[first]
    if a.ndim >= 1 and a.dtype.kind == "f":
        outs["_zl"] = a + pt.zeros_like(a + 1)            # dead reference through zeros_like
        outs["_tagged"] = (a * 2).tagged(FooTag()).with_tagged_axis(0, BazAxisTag())
    return outs


def transform_job(prog: str, pipeline: tuple, seed: int = 0, decorate: bool = True) -> JobOut:
    import pytato as pt
    progs = {p.name: p for p in C.corpus("thorough" if prog.startswith(("gen", "g2_")) else "quick", seed)}
    P = progs[prog]
    data = {n: C.default_data(n, shp, dt, P) for n, shp, dt, _ in P.inputs}
    try:
        outs, ins = C.build_pytato(P, data)
        if decorate:
            outs = _extra_graph(prog, outs, ins)
        dag = pt.make_dict_of_named_arrays(outs)
    except Exception as e:  # noqa: BLE001
        return JobOut(declined=f"program not constructible: {type(e).__name__}: {e}")
    dwname = C.dwname_for(ins)
    sides = []
    before = fingerprint(dag, with_ids=True)
    bytes_before = {n: d.tobytes() for n, d in data.items()}
    label = "+".join(pipeline)
    from pytato.transform import CacheCollisionError, deduplicate

    def run(start):
        cur = start
        rename = {}
        for t in pipeline:
            cur, rn = apply_transform(t, cur)
            for gen_name, dataobj in rn.items():
                for n, d in data.items():
                    if dataobj is d:
                        rename[gen_name] = n
        return cur, rename
    info = {"program": prog, "pipeline": list(pipeline)}
    try:
        try:
            cur, rename = run(dag)
        except ValueError as e:
            if not isinstance(e, CacheCollisionError) and not isinstance(e.__cause__, CacheCollisionError):
                raise
            # documented: mappers report structurally equal duplicates instead of merging them;
            # such graphs go through deduplicate first
            dag = deduplicate(dag)
            before = fingerprint(dag, with_ids=True)
            info["deduplicated_first"] = True
            cur, rename = run(dag)
    except Exception as e:  # noqa: BLE001
        import traceback
        return JobOut(sides=[Side(f"{prog}/{label}/runs", False,
                                  f"{type(e).__name__}: {e}\n{traceback.format_exc(limit=6)}")])
    new = cur
    sides.append(Side(f"{prog}/{label}/input-graph-unchanged", fingerprint(dag, with_ids=True) == before))
    sides.append(Side(f"{prog}/{label}/wrapped-data-unchanged",
                      all(data[n].tobytes() == b for n, b in bytes_before.items())))
    sides.append(Side(f"{prog}/{label}/same-output-names", set(new.keys()) == set(dag.keys()),
                      {"new": sorted(new.keys()), "old": sorted(dag.keys())}))
    shapes_ok = all(new[k].shape == dag[k].shape and new[k].dtype == dag[k].dtype for k in dag.keys() if k in new)
    sides.append(Side(f"{prog}/{label}/same-shapes-dtypes", shapes_ok))
    if len(pipeline) == 1 and pipeline[0] in IDEMPOTENT:
        twice, _ = apply_transform(pipeline[0], new)
        sides.append(Side(f"{prog}/{label}/idempotent", fingerprint(twice) == fingerprint(new)))
    if len(pipeline) == 1 and pipeline[0] in TAGS_ONLY:
        sides.append(Side(f"{prog}/{label}/changes-tags-only",
                          fingerprint(new, strip_tags=True) == fingerprint(dag, strip_tags=True)))

    kinds = C.kinds_of(P)
    outputs = {}
    for k in dag.keys():
        if k not in new:
            continue

        def mk_a(alg, k=k):
            ev = PtEval(alg, dwname=dwname, phname=rename)
            node = new[k]
            return lambda idx: ev.at(node, idx)

        def mk_b(alg, k=k):
            ev = PtEval(alg, dwname=dwname)
            node = dag[k]
            return lambda idx: ev.at(node, idx)
        outputs[k] = (dag[k].shape, mk_a, mk_b)
    obs = value_obs(f"{prog}/{label}", outputs, kinds, data,
                    info={"program": prog, "transformation": label, "inputs": "uninterpreted",
                          "index": "symbolic, whole output shape"})
    return JobOut(obs=obs, sides=sides, info=info)


def jobs(tier: str, seed: int):
    th = tier == "thorough"
    progs = C.corpus(tier, seed)
    J = []
    for P in progs:
        for t in TRANSFORMS:
            J.append(Job(MOD, "transform_job", {"prog": P.name, "pipeline": (t,), "seed": seed},
                         jid=f"{P.name}/{t}", hard_timeout=900))
    rnd = random.Random(seed + 17)
    npipe = 60 if th else 12
    for _ in range(npipe):
        P = rnd.choice(progs)
        pipe = tuple(rnd.choice(TRANSFORMS[:-1]) for _ in range(rnd.randint(2, 4)))
        if rnd.random() < 0.5:
            pipe = pipe[:3] + ("preprocess",)
        J.append(Job(MOD, "transform_job", {"prog": P.name, "pipeline": pipe, "seed": seed},
                     jid=f"{P.name}/{'+'.join(pipe)}", hard_timeout=900))
    meta = {
        "programs": len(progs),
        "explanation": "Translation validation of graph transformations: each real transformation is run on each "
                       "program; original and transformed DAG are evaluated at a symbolic index over uninterpreted "
                       "inputs (eval_pytato) and compared by CrossHair/z3 per output; structural clauses are concrete "
                       "side assertions (reflective fingerprint before/after, idempotence, tags-only).",
        "bounds": {"programs": f"{len(progs)} (committed corpus + {120 if th else 24} programs of the shape-aware seeded generator{' + 40 of the first generator' if th else ''}), <= 4 axes of "
                               "length <= 5", "transformations": TRANSFORMS, "pipelines": f"{npipe} seeded, length 2..4",
                   "inputs / indices": "all (uninterpreted inputs, symbolic index)"},
        "outside": ["integer wrap-around and float rounding (term algebra)", "programs outside the corpus/generator"],
        "stubs": ["LoopyTarget subclass selecting loopy's C target (no OpenCL)"],
    }
    return J, meta
