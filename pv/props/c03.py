"""C03 -- shape and dtype are inferred eagerly and agree with NumPy.

Harnesses call the *real* public constructors with symbolic shapes / axes /
indices and compare, per path, with NumPy's rule (``pv.sem.symnp``, itself
compared with the installed NumPy on a concrete grid in the job prologue):

* accepted by pytato  =>  ``.shape/.dtype/.ndim`` readable at once, NumPy
  accepts too, and they agree;
* rejected by pytato   =>  nothing to check (pytato may reject more).

The dtype clause is a finite table (operator x operand kind x dtype pair); it
is run through the same driver with bounded menu indices -- the solver's role
there degenerates to exhausting the table, and evidence reports it separately
(``table_cells``).
"""
from __future__ import annotations

import itertools

import numpy as np

from pv.drive import FnOb, HarnessError, Job, JobOut
from pv.props.common import refusal_types, take, term_xp
from pv.runner import load_findings

LEVEL = "other"
MOD = "pv.props.c03"
F64 = np.float64
NP_REJECT = (ValueError, IndexError, TypeError, ZeroDivisionError)   # AxisError is both ValueError and IndexError


class _PT:
    """pytato under NumPy-like names"""
    def __init__(self):
        import pytato as pt
        self.pt = pt

    def __getattr__(self, n):
        return getattr(self.pt, {"max": "amax", "min": "amin"}.get(n, n))

    def input(self, name, shape, dtype):
        return self.pt.make_placeholder(name, shape, dtype)


class _NP:
    def __getattr__(self, n):
        return getattr(np, n)

    def input(self, name, shape, dtype):
        return np.zeros(shape, dtype)


KNOWN = {
    "c03-matmul-unit-contraction": "matmul/dot broadcast a length-1 contraction axis against a longer one "
                                   "(e.g. shapes (2,1) @ (3,2) are accepted; NumPy rejects them)",
    "c03-einsum-repeated-label-broadcast": "einsum broadcasts a length-1 axis against a longer axis carrying the "
                                           "same label within one operand (e.g. 'ii->i' on shape (1,2)); NumPy rejects",
    "c03-all-any-dtype": "pt.all / pt.any keep the operand dtype (NumPy: bool)",
    "c03-isnan-dtype": "pt.isnan has dtype int32 (NumPy: bool)",
    "c03-sum-prod-small-int-dtype": "pt.sum / pt.prod of bool or sub-64-bit integer arrays keep the operand dtype "
                                    "(NumPy widens to int64/uint64)",
    "c03-bool-arith-dtype": "bool_array (/, //, %, **) bool_array has dtype bool (NumPy: float64 / int8)",
    "c03-conj-bool-dtype": "pt.conj(bool_array) has dtype bool (NumPy: int8)",
}


def listed(key):
    return key in load_findings("C03")


def witness(key, still_fails):
    """Side that re-establishes a listed finding; ok=True means it no longer fails."""
    from pv.drive import Side
    try:
        bad = bool(still_fails())
    except Exception:  # noqa: BLE001
        bad = True
    return Side(f"known:{key}", ok=not bad, detail=KNOWN[key])


def _shape_ob(oid, params, pre, build, samples, timeout=120, info=None, unbounded=(), grid=None,
              known=None, skip_dtype=False):
    """build(lib, p) -> array.  *grid*: iterable of concrete param dicts used to
    validate symnp against real NumPy (harness self-check)."""
    alg, xp = term_xp({})
    ptlib = _PT()

    if grid is not None:
        nplib = _NP()
        n = 0
        for g in grid:
            if not pre(**g):
                continue
            n += 1
            try:
                want = build(nplib, g)
                want = (tuple(want.shape), want.dtype)
            except NP_REJECT:
                want = None
            try:
                got = build(xp, g)
                got = (tuple(got.shape), got.dtype)
            except NP_REJECT:
                got = None
            if want != got:
                raise HarnessError(f"{oid}: symnp {got} != numpy {want} at {g}")
        if n == 0:
            raise HarnessError(f"{oid}: empty validation grid")

    def body(ob, **p):
        if known is not None and known(p):
            return True
        try:
            ref = build(xp, p)
        except NP_REJECT:
            ref = None
        try:
            node = build(ptlib, p)
        except Exception:  # noqa: BLE001
            return True          # not accepted: pytato may reject more than NumPy (C03 is about accepted ones)
        ob.reach()
        try:
            shp = node.shape
            dt = node.dtype
            nd = node.ndim
        except Exception as e:  # noqa: BLE001
            ob.last_detail = {"why": f"shape/dtype not available after construction: {type(e).__name__}: {e}"}
            return False
        if ref is None:
            ob.last_detail = {"why": "NumPy rejects these operands, pytato accepted them", "pytato_shape": shp}
            return False
        if nd != len(ref.shape) or len(shp) != len(ref.shape):
            ob.last_detail = {"why": "ndim", "pytato": shp, "numpy": ref.shape}
            return False
        for a, b in zip(shp, ref.shape):
            if a != b:
                ob.last_detail = {"why": "shape", "pytato": shp, "numpy": ref.shape}
                return False
        if dt != ref.dtype and not skip_dtype:
            ob.last_detail = {"why": "dtype", "pytato": str(dt), "numpy": str(ref.dtype)}
            return False
        return True

    def replay(ob, args):
        """concrete re-run against the installed NumPy itself"""
        if not pre(**args):
            return False, {"why": "precondition"}
        try:
            want = build(_NP(), args)
            want = (tuple(want.shape), str(want.dtype))
        except NP_REJECT as e:
            want = f"rejected: {type(e).__name__}"
        try:
            node = build(ptlib, args)
        except Exception as e:  # noqa: BLE001
            return False, {"why": f"pytato rejects concretely: {e}"}
        try:
            got = (tuple(int(s) for s in node.shape), str(node.dtype))
        except Exception as e:  # noqa: BLE001
            return True, {"pytato": f"accepted, then {type(e).__name__}: {e}", "numpy": want, "args": args}
        if skip_dtype and not isinstance(want, str):
            return got[0] != want[0], {"pytato": got, "numpy": want, "args": args}
        return got != want, {"pytato": got, "numpy": want, "args": args}

    return FnOb(oid, params, body, pre, samples, timeout=timeout, info=info or {}, unbounded=unbounded,
                replay=replay)


def _dims(prefix, n):
    return [(f"{prefix}{d}", "int") for d in range(n)]


def _grid(names, values):
    for combo in itertools.product(values, repeat=len(names)):
        yield dict(zip(names, combo))


def _rnd_grid(spec, n, seed=0):
    """spec: name -> list of values"""
    import random
    r = random.Random(seed)
    for _ in range(n):
        yield {k: r.choice(v) for k, v in spec.items()}


# ---------------------------------------------------------------------------
# families

def broadcast(op: str, na: int, nb: int, nc: int = -1, maxlen: int = 4) -> JobOut:
    params = _dims("a", na) + _dims("b", nb) + (_dims("c", nc) if nc >= 0 else [])
    names = [n for n, _ in params]

    def pre(**p):
        return all(0 <= p[n] <= maxlen for n in names)

    def build(lib, p):
        x = lib.input("x", take(p, "a", na), F64)
        y = lib.input("y", take(p, "b", nb), np.float32 if op in ("maximum",) else np.int32)
        if op == "add":
            return x + y
        if op == "rsub":
            return y - x
        if op == "less":
            return lib.less(x, y)
        if op == "maximum":
            return lib.maximum(x, y)
        if op == "logical_or":
            return lib.logical_or(x, y)
        if op == "arctan2":
            return lib.arctan2(x, lib.input("y", take(p, "b", nb), F64))
        if op == "where":
            c = lib.input("c", take(p, "c", nc), np.bool_)
            return lib.where(c, x, y)
        raise AssertionError(op)

    smp = {n: 2 for n in names}
    grid = _rnd_grid({n: [0, 1, 2, 3] for n in names}, 300)
    return JobOut(obs=[_shape_ob(f"broadcast/{op}/{na}x{nb}" + (f"x{nc}" if nc >= 0 else ""), params, pre, build,
                                 [smp], timeout=400, grid=grid,
                                 info={"family": "broadcasting", "op": op,
                                       "shapes": f"ndim {na},{nb}{',' + str(nc) if nc >= 0 else ''}; lengths 0..{maxlen} symbolic"})])


def index(kinds: str, maxlen: int = 6, maxstep: int = 3) -> JobOut:
    """'i' int, 's' slice, 'e' ellipsis (then nothing), 'E' ellipsis followed by the remaining pattern"""
    nd = len(kinds.replace("E", "")) if "E" in kinds else len(kinds)
    nd_arr = len(kinds) if "E" not in kinds else len(kinds) + 1
    params = _dims("n", nd_arr)
    unb = []
    for d, k in enumerate(kinds):
        if k == "i":
            params.append((f"x{d}", "int"))
        elif k == "s":
            params += [(f"a{d}", "optint"), (f"b{d}", "optint"), (f"c{d}", "optint")]
            unb += [f"a{d}", f"b{d}"]
    del nd

    def pre(**p):
        for d in range(nd_arr):
            if not (0 <= p[f"n{d}"] <= maxlen):
                return False
        for d, k in enumerate(kinds):
            if k == "s":
                c = p[f"c{d}"]
                if c is not None and not (-maxstep <= c <= maxstep):
                    return False
            if k == "i" and not (-maxlen - 2 <= p[f"x{d}"] <= maxlen + 1):
                return False
        return True

    def build(lib, p):
        x = lib.input("x", take(p, "n", nd_arr), F64)
        key = []
        for d, k in enumerate(kinds):
            if k == "i":
                key.append(p[f"x{d}"])
            elif k == "s":
                key.append(slice(p[f"a{d}"], p[f"b{d}"], p[f"c{d}"]))
            elif k in "eE":
                key.append(Ellipsis)
        return x[tuple(key)]

    smp = {f"n{d}": min(4, maxlen) for d in range(nd_arr)}
    spec = {f"n{d}": [0, 1, 3] for d in range(nd_arr)}
    for d, k in enumerate(kinds):
        if k == "i":
            smp[f"x{d}"] = -1
            spec[f"x{d}"] = [-5, -4, -3, -1, 0, 2, 3, 4]
        elif k == "s":
            smp |= {f"a{d}": None, f"b{d}": 0, f"c{d}": -1}
            spec |= {f"a{d}": [None, -9, -3, -1, 0, 1, 2, 5], f"b{d}": [None, -7, -2, 0, 1, 3, 4],
                     f"c{d}": [None, -3, -2, -1, 0, 1, 2, 3]}
    return JobOut(obs=[_shape_ob(f"index/{kinds}", params, pre, build, [smp], timeout=600, unbounded=tuple(unb),
                                 grid=_rnd_grid(spec, 400),
                                 info={"family": "basic indexing", "pattern": kinds,
                                       "axis lengths": f"0..{maxlen} symbolic",
                                       "slice": f"start/stop in Z u {{None}}, step in -{maxstep}..{maxstep} incl. 0, None",
                                       "int index": f"-{maxlen + 2}..{maxlen + 1}"})])


def reduction(op: str, nd: int, naxes: int, maxlen: int = 4) -> JobOut:
    """naxes: 0 = axis None, 1 = int axis, 2 = tuple of two axes"""
    params = _dims("n", nd) + [(f"ax{j}", "int") for j in range(naxes)]

    def pre(**p):
        return (all(1 <= p[f"n{d}"] <= maxlen for d in range(nd))
                and all(-nd - 1 <= p[f"ax{j}"] <= nd + 1 for j in range(naxes)))

    def build(lib, p):
        x = lib.input("x", take(p, "n", nd), F64)
        axis = None if naxes == 0 else p["ax0"] if naxes == 1 else take(p, "ax", naxes)
        return getattr(lib, op)(x, axis=axis)

    smp = {f"n{d}": 2 for d in range(nd)} | {f"ax{j}": j for j in range(naxes)}
    if naxes > nd:
        smp = None
    spec = {f"n{d}": [1, 2, 3] for d in range(nd)} | {f"ax{j}": list(range(-nd - 1, nd + 2)) for j in range(naxes)}
    sides = []
    skip = False
    if op in ("all", "any") and listed("c03-all-any-dtype"):
        skip = True
        import pytato as pt
        sides.append(witness("c03-all-any-dtype",
                             lambda: getattr(pt, op)(pt.make_placeholder("x", (2, 2), F64)).dtype != np.bool_))
    ob = _shape_ob(f"reduction/{op}/nd{nd}/axes{naxes}", params, pre, build, [smp] if smp else [], timeout=300,
                   grid=_rnd_grid(spec, 200), skip_dtype=skip,
                   info={"family": "reductions", "op": op, "axis": f"each in [-{nd}-1, {nd}+1]",
                         "lengths": f"1..{maxlen} symbolic (non-empty axes; NumPy and pytato differ on zero-size "
                                    "reductions only in that pytato rejects more)"})
    if not smp:
        ob.samples_must_reach = False
    return JobOut(obs=[ob], sides=sides)


def join(op: str, nd: int, narr: int, maxlen: int = 3, fixed_bug: bool = True) -> JobOut:
    params = []
    for j in range(narr):
        params += _dims(f"s{j}_", nd)
    params.append(("axis", "int"))
    names = [n for n, _ in params if n != "axis"]

    def pre(**p):
        return all(0 <= p[n] <= maxlen for n in names) and -nd - 2 <= p["axis"] <= nd + 2

    def build(lib, p):
        arrs = [lib.input(f"x{j}", take(p, f"s{j}_", nd), F64) for j in range(narr)]
        return getattr(lib, op)(arrs, axis=p["axis"])

    smp = {n: 2 for n in names} | {"axis": 0}
    spec = {n: [0, 1, 2] for n in names} | {"axis": list(range(-nd - 2, nd + 3))}
    if nd == 0 and op == "concatenate":
        smp = None
    ob = _shape_ob(f"{op}/nd{nd}/n{narr}", params, pre, build, [smp] if smp else [], timeout=400,
                   grid=_rnd_grid(spec, 400),
                   info={"family": op, "operands": narr, "shapes": f"independent, lengths 0..{maxlen} symbolic",
                         "axis": f"[-{nd}-2, {nd}+2]"})
    if not smp:
        ob.samples_must_reach = False
    return JobOut(obs=[ob])


def reshape(old_nd: int, new_nd: int, order: str, maxlen: int = 3) -> JobOut:
    params = _dims("n", old_nd) + _dims("m", new_nd)
    hi = maxlen ** max(old_nd, 1)

    def pre(**p):
        return (all(0 <= p[f"n{d}"] <= maxlen for d in range(old_nd))
                and all(-1 <= p[f"m{d}"] <= hi for d in range(new_nd)))

    def build(lib, p):
        return lib.reshape(lib.input("x", take(p, "n", old_nd), F64), take(p, "m", new_nd), order=order)

    smp = {f"n{d}": 1 for d in range(old_nd)} | {f"m{d}": 1 for d in range(new_nd)}
    spec = {f"n{d}": [0, 1, 2, 3] for d in range(old_nd)} | {f"m{d}": [-2, -1, 0, 1, 2, 3, 4, 6, 9] for d in range(new_nd)}
    return JobOut(obs=[_shape_ob(f"reshape/{old_nd}to{new_nd}/{order}", params, pre, build, [smp], timeout=600,
                                 grid=_rnd_grid(spec, 600),
                                 info={"family": "reshape", "order": order, "new shape entries": f"-1..{hi} incl. -1 inference"})])


def misc(which: str, nd: int, maxlen: int = 4) -> JobOut:
    params = _dims("n", nd)
    extra = {"roll": [("shift", "int"), ("axis", "int")],
             "expand_dims": [("axis", "int")], "expand_dims2": [("axis", "int"), ("axis2", "int")],
             "squeeze": [("axis", "int")], "squeeze_none": [],
             "transpose": [(f"p{d}", "int") for d in range(nd)],
             "broadcast_to": _dims("t", nd + 1), "broadcast_to_same": _dims("t", nd),
             "T": [], "full": [], "zeros": [],
             }[which]
    params = params + extra
    unb = ("shift",) if which == "roll" else ()

    def pre(**p):
        if not all(0 <= p[f"n{d}"] <= maxlen for d in range(nd)):
            return False
        for n, _ in extra:
            if n == "shift":
                continue
            lo, hi = (0, maxlen) if n.startswith("t") else (-nd - 2, nd + 2)
            if not (lo <= p[n] <= hi):
                return False
        return True

    def build(lib, p):
        shape = take(p, "n", nd)
        if which in ("full", "zeros"):
            return lib.full(shape, 3, dtype=np.int32) if which == "full" else lib.zeros(shape, dtype=np.float32)
        x = lib.input("x", shape, F64)
        if which == "roll":
            return lib.roll(x, p["shift"], p["axis"])
        if which == "expand_dims":
            return lib.expand_dims(x, p["axis"])
        if which == "expand_dims2":
            return lib.expand_dims(x, (p["axis"], p["axis2"]))
        if which == "squeeze":
            return lib.squeeze(x, axis=(p["axis"],))
        if which == "squeeze_none":
            return lib.squeeze(x)
        if which == "transpose":
            return lib.transpose(x, take(p, "p", nd))
        if which == "broadcast_to":
            return lib.broadcast_to(x, take(p, "t", nd + 1))
        if which == "broadcast_to_same":
            return lib.broadcast_to(x, take(p, "t", nd))
        if which == "T":
            return x.T
        raise AssertionError(which)

    smp = {f"n{d}": 1 for d in range(nd)}
    for n, _ in extra:
        smp[n] = 1 if n.startswith("t") or n == "shift" else 0
    if which == "transpose":
        smp |= {f"p{d}": d for d in range(nd)}
    if which == "expand_dims2":
        smp["axis2"] = 1
    spec = {f"n{d}": [0, 1, 2, 3] for d in range(nd)}
    for n, _ in extra:
        spec[n] = [0, 1, 2, 3] if n.startswith("t") else [-7, 0, 5] if n == "shift" else list(range(-nd - 2, nd + 3))
    ob = _shape_ob(f"{which}/nd{nd}", params, pre, build, [smp], timeout=300, unbounded=unb,
                   grid=_rnd_grid(spec, 300),
                   info={"family": which, "lengths": f"0..{maxlen} symbolic", "axis arguments": f"[-{nd}-2, {nd}+2]"})
    if which in ("squeeze",) and nd == 0:
        ob.samples_must_reach = False
    return JobOut(obs=[ob])


_ES = ["ij,jk->ik", "ij,ij->ij", "ii->i", "ij->", "i,j->ij", "ij,j->i", "ijk,kj->i", "ij,kl->il", "i,i,i->i"]


def einsum_shapes(spec: str, maxlen: int = 3) -> JobOut:
    ins = spec.split("->")[0].split(",")
    params = []
    for j, sub in enumerate(ins):
        params += _dims(f"s{j}_", len(sub))
    names = [n for n, _ in params]

    repeated = any(len(set(sub)) != len(sub) for sub in ins)
    lo = 1 if repeated else 0    # (NumPy treats a leading 0 of a repeated label as "unset": quirk, excluded)

    def pre(**p):
        return all(lo <= p[n] <= maxlen for n in names)

    def build(lib, p):
        arrs = [lib.input(f"x{j}", take(p, f"s{j}_", len(sub)), F64) for j, sub in enumerate(ins)]
        return lib.einsum(spec, *arrs)

    smp = {n: 2 for n in names}
    known = None
    sides = []
    if repeated and listed("c03-einsum-repeated-label-broadcast"):
        pairs = [(f"s{j}_{a}", f"s{j}_{b}") for j, sub in enumerate(ins)
                 for a in range(len(sub)) for b in range(a + 1, len(sub)) if sub[a] == sub[b]]

        def known(p):
            for u, v in pairs:
                if p[u] != p[v] and (p[u] == 1 or p[v] == 1):
                    return True
            return False

        def still():
            import pytato as pt
            pt.einsum("ii->i", pt.make_placeholder("x", (1, 2), F64)).shape
            return True
        sides.append(witness("c03-einsum-repeated-label-broadcast", still))
    return JobOut(sides=sides, obs=[_shape_ob(f"einsum/{spec}", params, pre, build, [smp], timeout=400, known=known,
                                 grid=_rnd_grid({n: [lo, 1, 2, 3] for n in names}, 300),
                                 info={"family": "einsum", "spec": spec,
                                       "operand shapes": f"independent per operand axis, 0..{maxlen} symbolic "
                                                         "(matching, broadcastable and mismatching)"})])


def matmul(fn: str, na: int, nb: int, maxlen: int = 3) -> JobOut:
    params = _dims("a", na) + _dims("b", nb)
    names = [n for n, _ in params]

    def pre(**p):
        return all(0 <= p[n] <= maxlen for n in names)

    def build(lib, p):
        x = lib.input("x", take(p, "a", na), F64)
        y = lib.input("y", take(p, "b", nb), np.float32)
        if fn == "matmul":
            return x @ y
        return lib.dot(x, y)

    smp = {n: 2 for n in names}
    known = None
    sides = []
    if na >= 1 and nb >= 1 and listed("c03-matmul-unit-contraction"):
        kb = nb - 2 if nb >= 2 else 0

        def known(p):
            x, y = p[f"a{na - 1}"], p[f"b{kb}"]
            return x != y and (x == 1 or y == 1)

        def still():
            import pytato as pt
            sa = (2,) * (na - 1) + (1,)
            sb = [2] * nb
            sb[kb] = 3
            x, y = pt.make_placeholder("x", sa, F64), pt.make_placeholder("y", tuple(sb), F64)
            r = (x @ y) if fn == "matmul" else pt.dot(x, y)
            r.shape
            return True
        sides.append(witness("c03-matmul-unit-contraction", still))
    ob = _shape_ob(f"{fn}/{na}x{nb}", params, pre, build, [smp], timeout=400, known=known,
                   grid=_rnd_grid({n: [0, 1, 2, 3] for n in names}, 300),
                   info={"family": fn, "ndim": [na, nb], "lengths": f"0..{maxlen} symbolic"})
    if na == 0 or nb == 0:
        ob.samples_must_reach = False
    return JobOut(obs=[ob], sides=sides)


def pad_shapes(nd: int, maxlen: int = 3) -> JobOut:
    params = _dims("n", nd) + [(f"w{d}{side}", "int") for d in range(nd) for side in "ba"]
    names = [n for n, _ in params]

    def pre(**p):
        return all(0 <= p[f"n{d}"] <= maxlen for d in range(nd)) and all(-1 <= p[n] <= 2 for n in names if n.startswith("w"))

    def build(lib, p):
        x = lib.input("x", take(p, "n", nd), F64)
        pw = tuple((p[f"w{d}b"], p[f"w{d}a"]) for d in range(nd))
        return lib.pad(x, pw if nd > 1 else pw[0])

    smp = {n: 1 for n in names}
    return JobOut(obs=[_shape_ob(f"pad/nd{nd}", params, pre, build, [smp], timeout=400,
                                 grid=_rnd_grid({n: ([0, 1, 2, 3] if n.startswith("n") else [-1, 0, 1, 2]) for n in names}, 300),
                                 info={"family": "pad", "widths": "-1..2 per side (negative widths must be rejected)",
                                       "lengths": f"0..{maxlen} symbolic"})])


def adv_shapes(pattern: str, maxlen: int = 3) -> JobOut:
    """result shape / broadcast validation of advanced indexing: pattern over 'A' (1-d index array of symbolic
    length), 'B' (2-d index array (len, 1)), ':' and 'i'"""
    nd = len(pattern)
    params = _dims("n", nd) + [(f"l{d}", "int") for d, k in enumerate(pattern) if k in "AB"]
    names = [n for n, _ in params]

    def pre(**p):
        return all(1 <= p[f"n{d}"] <= maxlen for d in range(nd)) and all(0 <= p[n] <= maxlen for n in names if n.startswith("l"))

    def build(lib, p):
        x = lib.input("x", take(p, "n", nd), F64)
        key = []
        for d, k in enumerate(pattern):
            if k == "A":
                key.append(lib.input(f"j{d}", (p[f"l{d}"],), np.int64))
            elif k == "B":
                key.append(lib.input(f"j{d}", (p[f"l{d}"], 1), np.int64))
            elif k == "i":
                key.append(0)
            else:
                key.append(slice(None))
        return x[tuple(key)]

    smp = {n: 2 for n in names}
    return JobOut(obs=[_shape_ob(f"adv_shapes/{pattern}", params, pre, build, [smp], timeout=400,
                                 grid=_rnd_grid({n: ([1, 2, 3] if n.startswith("n") else [0, 1, 2, 3]) for n in names}, 300),
                                 info={"family": "advanced indexing shapes", "pattern": pattern,
                                       "index array lengths": f"0..{maxlen} symbolic, independent (broadcastable or not)"})])


def creation(which: str, big: bool = False) -> JobOut:
    R = 3 if big else 2
    if which == "eye":
        params = [("N", "int"), ("M", "int"), ("k", "int")]

        def pre(**p):
            return 0 <= p["N"] <= 5 and 0 <= p["M"] <= 5 and -6 <= p["k"] <= 6

        def build(lib, p):
            return lib.eye(p["N"], p["M"], p["k"])
        smp = {"N": 2, "M": 3, "k": 1}
        spec = {"N": [0, 1, 3], "M": [0, 2, 3], "k": [-4, -1, 0, 1, 5]}
    else:
        params = [("start", "int"), ("stop", "int"), ("step", "int")]

        def pre(**p):
            return -R <= p["start"] <= R and -R - 1 <= p["stop"] <= R + 1 and -2 <= p["step"] <= 2 and p["step"] != 0

        def build(lib, p):
            return lib.arange(p["start"], p["stop"], p["step"], dtype=np.int64)
        smp = {"start": 1, "stop": 3, "step": 2}
        spec = {"start": [-2, 0, 1, 2], "stop": [-3, 0, 1, 3], "step": [-2, -1, 1, 2]}
    return JobOut(obs=[_shape_ob(f"creation/{which}", params, pre, build, [smp], timeout=900 if big else 300,
                                 grid=_rnd_grid(spec, 200), info={"family": which})])


# ---------------------------------------------------------------------------
# dtype table

DTYPES = [np.bool_, np.int8, np.int16, np.int32, np.int64, np.uint8, np.uint16, np.uint32, np.uint64,
          np.float32, np.float64, np.complex64, np.complex128]
BINOPS = ["add", "sub", "mul", "truediv", "floordiv", "mod", "pow", "less", "less_equal", "greater",
          "greater_equal", "equal", "not_equal", "logical_and", "logical_or", "bitand", "bitor", "bitxor",
          "maximum", "minimum", "where", "matmul", "stack", "concatenate"]
KINDS = ["aa", "a_int", "int_a", "a_float", "float_a", "a_complex", "a_bool", "a_np", "np_a"]
UNOPS = ["neg", "abs", "sqrt", "sin", "exp", "log", "isnan", "real", "imag", "conj", "sum", "prod", "amax",
         "amin", "all", "any", "logical_not", "astype_f32", "zeros_like", "ones_like", "transpose", "index",
         "arctan", "tanh", "sum_axis0"]

_PYOP = {"add": lambda a, b: a + b, "sub": lambda a, b: a - b, "mul": lambda a, b: a * b,
         "truediv": lambda a, b: a / b, "floordiv": lambda a, b: a // b, "mod": lambda a, b: a % b,
         "pow": lambda a, b: a ** b, "bitand": lambda a, b: a & b, "bitor": lambda a, b: a | b,
         "bitxor": lambda a, b: a ^ b}


def _apply_bin(lib, op, a, b):
    if op in _PYOP:
        return _PYOP[op](a, b)
    if op == "matmul":
        return a @ b
    if op in ("stack", "concatenate"):
        return getattr(lib, op)([a, b])
    if op == "concatenate_e1":            # a zero-long piece still takes part in the dtype promotion
        return lib.concatenate([a[:0], b])
    if op == "concatenate_e2":
        return lib.concatenate([a, b[:0], a])
    if op == "where":
        return lib.where(lib.cond, a, b)
    if op == "where_c":                   # the condition's dtype (any dtype is a legal truth value) takes no part in the promotion
        return lib.where(a, b, b)
    return getattr(lib, op)(a, b)


def _apply_un(lib, op, a):
    if op == "neg":
        return -a
    if op == "abs":
        return abs(a)
    if op == "astype_f32":
        return a.astype(np.float32)
    if op == "transpose":
        return a.T
    if op == "index":
        return a[0]
    if op == "sum_axis0":
        return lib.sum(a, axis=0)
    return getattr(lib, op)(a)


class _NPd:
    cond = np.ones((1,), bool)

    def __getattr__(self, n):
        return getattr(np, n)


class _PTd:
    def __init__(self):
        import pytato as pt
        self.pt = pt
        self.cond = pt.make_placeholder("c", (1,), np.bool_)

    def __getattr__(self, n):
        return getattr(self.pt, n)


def dtype_binary(op: str, kind: str) -> JobOut:
    import pytato as pt
    nd = len(DTYPES)
    params = [("d1", "int"), ("d2", "int")]
    ptl, npl = _PTd(), _NPd()
    scal = {"int": 3, "float": 2.5, "complex": 1 + 2j, "bool": True}

    scalar_kind = kind != "aa" and "np" not in kind

    def pre(**p):
        if scalar_kind and p["d2"] != 0:
            return False       # Python-scalar operand kinds do not depend on the second dtype
        return 0 <= p["d1"] < nd and 0 <= p["d2"] < nd

    def operands(lib, d1, d2):
        t1, t2 = DTYPES[d1], DTYPES[d2]
        mk = (lambda n, t: pt.make_placeholder(n, (1,), t)) if lib is ptl else (lambda n, t: np.ones((1,), t))
        if kind == "aa":
            return mk("x", t1), mk("y", t2)
        a = mk("x", t1)
        left = kind.endswith("_a")
        k = kind.replace("_a", "").replace("a_", "")
        s = t2(1) if k == "np" else scal[k]
        return (s, a) if left else (a, s)

    def cell(d1, d2):
        """-> None if out of scope, else (numpy dtype, pytato dtype or exception text)"""
        if kind != "aa" and not kind.endswith("np") and not kind.startswith("np") and d2 != 0:
            return None          # scalar kinds do not depend on d2
        try:
            with np.errstate(all="ignore"):
                want = _apply_bin(npl, op, *operands(npl, d1, d2)).dtype
        except Exception:  # noqa: BLE001
            return None          # NumPy itself rejects this dtype combination (type error): out of scope
        try:
            got = _apply_bin(ptl, op, *operands(ptl, d1, d2))
        except Exception:  # noqa: BLE001
            return want, "declined"
        return want, got.dtype

    sides = []
    excl = None
    if op in ("truediv", "floordiv", "mod", "pow") and kind == "aa" and listed("c03-bool-arith-dtype"):
        def excl(d1, d2):
            return d1 == 0 and d2 == 0
        sides.append(witness("c03-bool-arith-dtype", lambda: cell(0, 0)[0] != cell(0, 0)[1]))

    def body(ob, **p):
        d1, d2 = p["d1"].__index__(), p["d2"].__index__()
        # (the menu indices are concrete from here on: the table cell itself is computed outside CrossHair's
        #  tracing, which only slows concrete code down)
        from crosshair.tracers import NoTracing
        with NoTracing():
            c = cell(int(d1), int(d2))
        ob.reach()
        if c is None or c[1] == "declined":
            return True
        if excl is not None and excl(d1, d2):
            return True
        ob.last_detail = {"numpy": str(c[0]), "pytato": str(c[1]), "op": op, "kind": kind,
                          "dtypes": [DTYPES[d1].__name__, DTYPES[d2].__name__]}
        return c[0] == c[1]

    return JobOut(obs=[FnOb(f"dtype/{op}/{kind}", params, body, pre, [{"d1": 10, "d2": 0}], timeout=600,
                            info={"family": "dtype table", "op": op, "operand kinds": kind,
                                  "table_cells": nd * nd, "note": "menu indices: enumeration through the solver"})],
                  sides=sides)


def dtype_unary(op: str) -> JobOut:
    import pytato as pt
    nd = len(DTYPES)
    params = [("d1", "int")]

    def pre(**p):
        return 0 <= p["d1"] < nd

    def cell(d1):
        t = DTYPES[d1]
        try:
            with np.errstate(all="ignore"):
                want = _apply_un(np, op, np.ones((1, 1), t)).dtype
        except Exception:  # noqa: BLE001
            return None
        try:
            got = _apply_un(pt, op, pt.make_placeholder("x", (1, 1), t))
        except Exception:  # noqa: BLE001
            return None
        return want, got.dtype

    rules = {
        "c03-all-any-dtype": lambda d: op in ("all", "any") and d != 0,
        "c03-isnan-dtype": lambda d: op == "isnan",
        "c03-sum-prod-small-int-dtype": lambda d: op in ("sum", "prod", "sum_axis0")
        and DTYPES[d] in (np.bool_, np.int8, np.int16, np.int32, np.uint8, np.uint16, np.uint32),
        "c03-conj-bool-dtype": lambda d: op == "conj" and d == 0,
    }
    active = {k: r for k, r in rules.items() if listed(k) and any(r(d) for d in range(nd))}
    sides = []
    for k, r in active.items():
        def still(r=r):
            return any(r(d) and cell(d) is not None and cell(d)[0] != cell(d)[1] for d in range(nd))
        sides.append(witness(k, still))

    def body(ob, **p):
        d1 = p["d1"].__index__()
        ob.reach()
        from crosshair.tracers import NoTracing
        with NoTracing():
            c = cell(int(d1))
        if c is None:
            return True
        if any(r(d1) for r in active.values()):
            return True
        ob.last_detail = {"numpy": str(c[0]), "pytato": str(c[1]), "op": op, "dtype": DTYPES[d1].__name__}
        return c[0] == c[1]

    return JobOut(obs=[FnOb(f"dtype/{op}", params, body, pre, [{"d1": 10}], timeout=120,
                            info={"family": "dtype table (unary / reductions)", "op": op, "table_cells": nd})],
                  sides=sides)


# ---------------------------------------------------------------------------

def jobs(tier: str, seed: int):
    J = []
    th = tier == "thorough"

    def add(factory, **kw):
        jid = factory + "/" + "/".join(f"{k}={v}" for k, v in kw.items())
        J.append(Job(MOD, factory, kw, jid=jid, hard_timeout=1500 if th else 700))

    L = 4 if th else 3
    for na, nb in [(0, 1), (1, 1), (1, 2), (2, 2), (2, 1), (0, 2)] + ([(3, 3), (3, 1), (2, 3), (3, 2), (0, 3)] if th else [(3, 2)]):
        add("broadcast", op="add", na=na, nb=nb, maxlen=4 if na + nb <= 4 else L)
    for op in ["rsub", "less", "maximum", "logical_or"]:
        add("broadcast", op=op, na=2, nb=1, maxlen=4)
        if th:
            add("broadcast", op=op, na=2, nb=3, maxlen=4)
    for na, nb, nc in [(1, 1, 1), (2, 1, 0), (1, 2, 2)] + ([(2, 2, 2), (0, 0, 2), (3, 1, 2)] if th else []):
        add("broadcast", op="where", na=na, nb=nb, nc=nc, maxlen=4 if th else 3)
    # (deep domains on the single-axis patterns; axes are handled independently by the code, paths multiply)
    if th:
        pats = [("i", 6, 3), ("s", 6, 3), ("e", 6, 3), ("is", 5, 2), ("si", 5, 2), ("ie", 6, 3), ("se", 6, 3), ("Ei", 6, 3),
                ("Es", 6, 3), ("sE", 4, 2), ("iEi", 4, 1)]      # ("ss": two unbounded slices do not finish within 50 min even at length 2 -- outside)
    else:
        pats = [("i", 6, 3), ("s", 6, 3), ("e", 6, 3), ("is", 3, 1), ("ie", 4, 2), ("se", 4, 2), ("Ei", 6, 3), ("Es", 5, 2)]
    for pat, ml, ms in pats:
        add("index", kinds=pat, maxlen=ml, maxstep=ms)
    for op in ["sum", "amax", "prod", "all"] + (["amin", "any"] if th else []):
        for nd, nax in [(1, 1), (2, 1), (3, 1), (2, 0), (2, 2), (0, 0)] + ([(3, 2), (3, 0)] if th else []):     # ((1, 2): every input is rejected by both sides -- vacuous)
            if op != "sum" and not th and (nd, nax) not in [(2, 1), (2, 2)]:
                continue
            add("reduction", op=op, nd=nd, naxes=nax, maxlen=4)
    for op in ["stack", "concatenate"]:
        for nd, narr in [(1, 2), (2, 2), (0, 2), (1, 1), (2, 3)] + ([(3, 2), (1, 3)] if th else []):
            if nd == 0 and op == "concatenate":
                continue
            add("join", op=op, nd=nd, narr=narr, maxlen=3 if nd * narr <= 4 else 2)
    for o, n in [(1, 1), (1, 2), (2, 1), (2, 2), (0, 1), (1, 0)] + ([(3, 1), (0, 2), (1, 3)] if th else []):      # ((2,3) and (3,2) do not finish within budget even at lengths <= 2: outside)
        for order in ("C", "F") if th else ("C",):
            add("reshape", old_nd=o, new_nd=n, order=order, maxlen=(3 if o + n <= 4 else 2) if th else (3 if o + n <= 3 else 2))
    for which, nds in [("roll", (1, 2, 3)), ("expand_dims", (0, 1, 2)), ("expand_dims2", (0, 1, 2)), ("squeeze", (1, 2, 3)),
                       ("squeeze_none", (0, 2, 3)), ("transpose", (1, 2, 3)), ("broadcast_to", (0, 1, 2)),
                       ("broadcast_to_same", (1, 2, 3)), ("T", (0, 2, 3)), ("full", (0, 2)), ("zeros", (1, 3))]:
        for nd in nds:
            big = which.startswith("broadcast_to") and nd >= 2
            if which == "broadcast_to" and nd >= 2 and not th:
                continue
            add("misc", which=which, nd=nd, maxlen=(1 if nd == 3 or which == "broadcast_to" else 2) if big else (4 if nd < 3 else 3))
    for spec in _ES if th else _ES[:6]:
        add("einsum_shapes", spec=spec, maxlen=3 if len(spec) < 11 else 2)
    for fn in ("matmul", "dot"):
        for na, nb in [(1, 1), (2, 2), (2, 1), (1, 2), (3, 2)] + ([(3, 3), (2, 3)] if th else []):
            add("matmul", fn=fn, na=na, nb=nb, maxlen=3 if na + nb <= 4 else 2)
    # stacks of matrices of different rank: batch axes align on the right
    for na, nb in [(3, 4), (4, 3)]:
        add("matmul", fn="matmul", na=na, nb=nb, maxlen=2)
    for nd in (1, 2):
        add("pad_shapes", nd=nd, maxlen=3 if nd == 1 else 2)
    for pat in ["AA", "A:A", "AB", "BA:", "A:", "AiA"] + (["AAA", ":AA", "B:A"] if th else []):
        add("adv_shapes", pattern=pat, maxlen=3)
    add("creation", which="eye")
    add("creation", which="arange", big=th)
    for op in BINOPS:
        for kind in KINDS:
            add("dtype_binary", op=op, kind=kind)
    for op in ("concatenate_e1", "concatenate_e2", "where_c"):
        add("dtype_binary", op=op, kind="aa")
    for op in UNOPS:
        add("dtype_unary", op=op)

    meta = {
        "programs": len(J),
        "explanation": "Bounded symbolic verification of the real constructors: CrossHair runs pytato's public API "
                       "(argument validation, shape/dtype inference) on symbolic shapes, axes, slices and indices; "
                       "each path compares with NumPy's rule (symnp, validated against the installed NumPy on a "
                       "concrete grid in the same job). The dtype clause is an enumerated table driven through the "
                       "same harness (no solver reasoning is claimed for it).",
        "bounds": {"ndim": "<= 3", "axis lengths": "0..3/4 symbolic (slices: 0..6)", "slice start/stop": "unbounded",
                   "axis arguments": "[-ndim-2, ndim+2]", "dtypes": [d.__name__ for d in DTYPES],
                   "operand kinds": KINDS},
        "outside": ["dtype combinations NumPy itself rejects with a type error", "zero-size reductions (pytato "
                    "documents that it needs 'initial')", "advanced-index result shapes (covered by C02's shape "
                    "comparison)", "pad, sparse matmul shapes"],
        "extra_coverage": {"table_cells": len(DTYPES) ** 2 * len(BINOPS) * 3 + len(DTYPES) * (len(BINOPS) * 6 + len(UNOPS))},
    }
    return J, meta
