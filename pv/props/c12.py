"""C12 -- outlining a function (trace_call) and inlining its calls are inverse
and value-preserving.

Function bodies are corpus programs.  The real ``trace_call`` /
``tag_all_calls_to_be_inlined`` / ``inline_calls`` run concretely; call results,
direct application and the inlined graph are evaluated at a symbolic index over
uninterpreted inputs (``eval_pytato`` gives ``Call`` its documented meaning:
the body evaluated with parameters bound to the call's bindings) and compared
by CrossHair/z3.
"""
from __future__ import annotations

import numpy as np

from pv import corpus as C
from pv.drive import Job, JobOut, Side
from pv.props.tcommon import value_obs
from pv.sem.ptsem import PtEval

LEVEL = "translation_validation"
MOD = "pv.props.c12"

STYLES = ["positional", "keyword", "mixed"]
RETURNS = ["array", "tuple", "dict"]
SITES = ["single", "repeated_swapped", "nested2", "nested3", "caller_named_like_params", "args_are_exprs",
         "same_name_other_body", "many_outputs", "pretagged_nested", "passthrough_of_call"]


def _has_call(dag):
    from pytato.analysis import get_num_call_sites
    return get_num_call_sites(dag)


def call_job(prog: str, style: str, ret: str, site: str) -> JobOut:
    import pytato as pt
    progs = {p.name: p for p in C.corpus("quick")}
    P = progs[prog]
    L = C.PtLib()
    names = [n for n, *_ in P.inputs]
    shapes = {n: shp for n, shp, _, _ in P.inputs}
    dtypes = {n: dt for n, _, dt, _ in P.inputs}

    def f(*args, **kwargs):
        vals = dict(zip(names, args))
        vals.update(kwargs)
        outs = P.fn(L, **vals)
        if ret == "array":
            return outs[sorted(outs)[0]]
        if ret == "tuple":
            return tuple(outs[k] for k in sorted(outs))
        return dict(outs)

    def as_dict(r):
        if isinstance(r, pt.Array):
            return {"_": r}
        if isinstance(r, tuple):
            return {f"_{i}": v for i, v in enumerate(r)}
        return dict(r)

    def call(fn, vals):
        """call *fn* through trace_call in the requested argument style"""
        if style == "positional":
            return pt.trace_call(fn, *[vals[n] for n in names])
        # keywords are written in *reverse* (non-alphabetical) order at the call site
        if style == "keyword":
            return pt.trace_call(fn, **{n: vals[n] for n in reversed(names)})
        k = max(1, len(names) // 2)
        return pt.trace_call(fn, *[vals[n] for n in names[:k]], **{n: vals[n] for n in reversed(names[k:])})

    # caller inputs
    if site == "caller_named_like_params":
        cnames = {n: (f"in__pt_{i}" if style != "keyword" else f"in_{n}") for i, n in enumerate(names)}
    else:
        cnames = {n: n for n in names}
    ins = {n: pt.make_placeholder(cnames[n], shapes[n], dtypes[n]) for n in names}
    kinds = {cnames[n]: k for n, k in C.kinds_of(P).items()}
    data = {cnames[n]: C.default_data(n, shapes[n], dtypes[n], P) for n in names}

    same_shape = [n for n in names if shapes[n] == shapes[names[0]] and dtypes[n] == dtypes[names[0]]]
    try:
        if site in ("single", "caller_named_like_params"):
            args = ins
            called, direct = as_dict(call(f, args)), as_dict(f(**args))
        elif site == "args_are_exprs":
            args = {n: (ins[n] + ins[n] if dtypes[n] != np.bool_ else ins[n]) for n in names}
            called, direct = as_dict(call(f, args)), as_dict(f(**args))
        elif site == "many_outputs":
            # a function with 12 results (names "_10", "_11" sort before "_2")
            def fmany(*a, **kw):
                r = as_dict(f(*a, **kw))
                base = [r[k_] for k_ in sorted(r)]
                outs12 = [base[j % len(base)] * (j + 1) + j for j in range(12)]
                if ret == "dict":
                    return {f"o{j}": v for j, v in enumerate(outs12)}
                return tuple(outs12)
            fmany.__name__ = "fmany"
            called, direct = as_dict(call(fmany, ins)), as_dict(fmany(**ins))
        elif site == "passthrough_of_call":
            # a function that hands one of its arguments back unchanged, called on the result of another traced call;
            # the caller uses the passed-through result
            c0, d0 = as_dict(call(f, ins)), as_dict(f(**ins))
            k0 = sorted(c0)[0]

            def fpt(a):
                if ret == "dict":
                    return {"twice": a * 2, "same": a}
                return (a * 2, a)
            c1, d1 = as_dict(pt.trace_call(fpt, c0[k0])), as_dict(fpt(d0[k0]))
            called = {f"p{k}": v for k, v in c1.items()} | {"use": c1[sorted(c1)[-1]] + 1}
            direct = {f"p{k}": v for k, v in d1.items()} | {"use": d1[sorted(d1)[-1]] + 1}
        elif site == "same_name_other_body":
            # two *different* functions that carry the same Python name, called in one graph
            def f2(*a, **kw):
                r = f(*a, **kw)
                if isinstance(r, pt.Array):
                    return r * 2 + 1
                if isinstance(r, tuple):
                    return tuple(v * 2 + 1 for v in r)
                return {k_: v * 2 + 1 for k_, v in r.items()}
            f2.__name__ = f.__name__
            c1, c2 = as_dict(call(f, ins)), as_dict(call(f2, ins))
            d1, d2 = as_dict(f(**ins)), as_dict(f2(**ins))
            called = {f"a{k}": v for k, v in c1.items()} | {f"b{k}": v for k, v in c2.items()}
            direct = {f"a{k}": v for k, v in d1.items()} | {f"b{k}": v for k, v in d2.items()}
        elif site == "repeated_swapped":
            a1 = dict(ins)
            a2 = dict(ins)
            if len(same_shape) >= 2:
                a2[same_shape[0]], a2[same_shape[1]] = ins[same_shape[1]], ins[same_shape[0]]
            c1, c2 = as_dict(call(f, a1)), as_dict(call(f, a2))
            d1, d2 = as_dict(f(**a1)), as_dict(f(**a2))
            called = {f"a{k}": v for k, v in c1.items()} | {f"b{k}": v for k, v in c2.items()}
            direct = {f"a{k}": v for k, v in d1.items()} | {f"b{k}": v for k, v in d2.items()}
        else:
            depth = 2 if site in ("nested2", "pretagged_nested") else 3

            def g(*a, **kw):
                r = call(f, dict(zip(names, a)) | kw)
                return r

            def h(*a, **kw):
                return call(g, dict(zip(names, a)) | kw)
            top = g if depth == 2 else h
            called, direct = as_dict(call(top, ins)), as_dict(f(**ins))
            if site == "pretagged_nested":
                # the OUTER call site already carries the inline tag (put there by hand) before tag_all_calls_to_be_inlined
                # runs; the nested call inside its body does not
                from pytato.tags import InlineCallTag
                first = next(iter(called.values()))
                tagged_call = first._container.tagged(InlineCallTag())
                called = {k: tagged_call[v.name] for k, v in called.items()}
    except Exception as e:  # noqa: BLE001
        import traceback
        # C12: trace_call with any argument mixture must work for functions that work when called directly
        try:
            f(**ins)
        except Exception as e2:  # noqa: BLE001
            return JobOut(declined=f"function body not constructible directly: {type(e2).__name__}: {e2}")
        return JobOut(sides=[Side(f"{prog}/{style}/{ret}/{site}/trace_call-accepts", False,
                                  f"{type(e).__name__}: {e}\n{traceback.format_exc(limit=5)}")])

    sides = [Side("same-result-names", set(called) == set(direct), [sorted(called), sorted(direct)])]
    keys = sorted(set(called) & set(direct))
    sides.append(Side("call-result-shapes-dtypes",
                      all(called[k].shape == direct[k].shape and called[k].dtype == direct[k].dtype for k in keys)))
    dag = pt.transform.deduplicate(pt.make_dict_of_named_arrays(called))   # mappers refuse structural duplicates
    sides.append(Side("calls-present-before-inlining", _has_call(dag) >= 1))
    try:
        inl = pt.inline_calls(pt.tag_all_calls_to_be_inlined(dag))
    except Exception as e:  # noqa: BLE001
        import traceback
        sides.append(Side("inline_calls-runs", False, f"{type(e).__name__}: {e}\n{traceback.format_exc(limit=5)}"))
        inl = None
    outputs = {}
    for k in keys:
        def mk_call(alg, k=k):
            ev = PtEval(alg)
            return lambda idx: ev.at(called[k], idx)

        def mk_direct(alg, k=k):
            ev = PtEval(alg)
            return lambda idx: ev.at(direct[k], idx)
        outputs[f"call-vs-direct/{k}"] = (direct[k].shape, mk_call, mk_direct)
        if inl is not None:
            def mk_inl(alg, k=k):
                ev = PtEval(alg)
                return lambda idx: ev.at(inl[k], idx)
            outputs[f"inlined-vs-call/{k}"] = (direct[k].shape, mk_inl, mk_call)
    if inl is not None:
        sides.append(Side("no-call-after-inlining", _has_call(inl) == 0, _has_call(inl)))
        sides.append(Side("inlined-shapes-dtypes",
                          all(inl[k].shape == direct[k].shape and inl[k].dtype == direct[k].dtype for k in keys)))
    obs = value_obs(f"{prog}/{style}/{ret}/{site}", outputs, kinds, data,
                    info={"function body": prog, "arguments": style, "returns": ret, "call site": site})
    for s in sides:
        s.sid = f"{prog}/{style}/{ret}/{site}/{s.sid}"
    return JobOut(obs=obs, sides=sides)


def jobs(tier: str, seed: int):
    th = tier == "thorough"
    progs = [p for p in C.corpus("quick") if all(k == "ph" for *_, k in p.inputs) and 1 <= len(p.inputs) <= 4]
    if not th:
        keep = {"arith_bcast", "reductions", "matmul_chain", "stack_concat", "reshape_cf", "basic_index", "adv_index",
                "where_minmax", "sharing", "creation", "roll_transpose", "out_is_input"}
        progs = [p for p in progs if p.name in keep]
    J = []
    for i, P in enumerate(progs):
        for style in STYLES:
            for ret in RETURNS:
                si, ri = STYLES.index(style), RETURNS.index(ret)
                specials = ["same_name_other_body", "many_outputs", "pretagged_nested", "passthrough_of_call"]
                sites = SITES if th else [SITES[(i + si + ri) % len(SITES)], "single", specials[(i + si + ri) % 4]] + (
                    [specials[(i + si + ri + 1) % 4]] if (i + ri) % 3 == 0 else [])
                for site in dict.fromkeys(sites):
                    J.append(Job(MOD, "call_job", {"prog": P.name, "style": style, "ret": ret, "site": site},
                                 jid=f"{P.name}/{style}/{ret}/{site}", hard_timeout=900))
    meta = {
        "programs": len(progs),
        "explanation": "Translation validation of trace_call and inline_calls: call results vs direct application and "
                       "inlined graph vs graph with calls, compared per output at a symbolic index over uninterpreted "
                       "inputs (CrossHair/z3); Call nodes are given their documented meaning by eval_pytato.",
        "bounds": {"function bodies": [p.name for p in progs], "argument styles": STYLES, "return conventions": RETURNS,
                   "call sites": SITES, "nesting depth": "<= 3"},
        "outside": ["function bodies outside the corpus", "functions capturing data wrappers"],
    }
    return J, meta
