"""C01 -- code generated for the loopy target computes what NumPy computes.

Per corpus program the real ``deduplicate`` + ``generate_loopy`` run concretely
(loopy's C target, no OpenCL).  The resulting ``TranslationUnit`` is read into a
kernel model and every output is evaluated at a *symbolic* element index over
*uninterpreted* inputs by the kernel interpreter; CrossHair/z3 decides that it
equals NumPy's documented meaning of the program (``symnp``) for every input and
element.  Declared names/shapes/dtypes, structural sanity of the kernel
(dependencies, single writer) and independence of output order are side
assertions.  A candidate is replayed numerically (real kernel through loopy's C
target + gcc where loopy's C executor can run it, the numeric kernel
interpreter otherwise) against real NumPy before anything is reported.
"""
from __future__ import annotations

import itertools

import numpy as np

from pv import corpus as C
from pv.drive import Job, JobOut, Side
from pv.props.kcommon import RenamingAlg, arg_table, generate
from pv.props.tcommon import value_obs
from pv.runner import load_findings
from pv.sem.alg import NumAlg, num_close
from pv.sem.symnp import SymNP

LEVEL = "translation_validation"
MOD = "pv.props.c01"

ORDERS = {"given": None, "reversed": lambda k: tuple(-ord(c) for c in k), "sorted": lambda k: k}


def _in_child(fn, timeout=300):
    """run fn() in a forked child (a crashing compiled kernel must not take the worker down) -> ('ok', result) |
    ('failed', reason)"""
    import os
    import pickle
    import select
    import signal
    r, w = os.pipe()
    pid = os.fork()
    if pid == 0:
        try:
            os.close(r)
            try:
                payload = pickle.dumps(("ok", fn()))
            except BaseException as e:  # noqa: BLE001
                payload = pickle.dumps(("failed", f"{type(e).__name__}: {str(e)[:200]}"))
            with os.fdopen(w, "wb") as f:
                f.write(payload)
        finally:
            os._exit(0)
    os.close(w)
    chunks = []
    with os.fdopen(r, "rb") as f:
        ready, _, _ = select.select([f], [], [], timeout)
        if not ready:
            os.kill(pid, signal.SIGKILL)
            os.waitpid(pid, 0)
            return "failed", "timeout"
        chunks.append(f.read())
    _, status = os.waitpid(pid, 0)
    data = b"".join(chunks)
    if not data:
        return "failed", f"child died (status {status})"
    try:
        return pickle.loads(data)
    except Exception as e:  # noqa: BLE001
        return "failed", f"unreadable result: {e}"


def numeric_replay_against_numpy(G, names=None, special=None):
    """-> list of (output, detail) where the real kernel disagrees with NumPy; finite data first, then NaN/inf
    injected into the float inputs.  The NaN/inf trials are left out for programs with reductions / contractions:
    there the result for non-finite data depends on the order and factorisation of the sum (NumPy's einsum sums a
    broadcast operand first, inf - inf appears or not), which is outside the NaN-aware fragment of the property."""
    from pv.props.tcommon import special_value_trials
    import copy
    how = ""
    if special is None:
        special = not ({"reduction", "einsum"} & set(getattr(G.prog, "tags", ())))
    trials = special_value_trials(G.data) if special else [G.data]
    for trial, data in enumerate(trials):
        G2 = copy.copy(G)
        G2.data = data
        bad, how = _numeric_replay_once(G2, names)
        if bad:
            for _, det in bad:
                det["inputs"] = "finite, pairwise distinct" if trial == 0 else f"NaN/inf injected (trial {trial})"
            return bad, how
    return [], how


def _numeric_replay_once(G, names=None):
    from pv.sem.knlsem import run_kernel_numerically
    want = C.build_numpy(G.prog, G.data)
    bad = []
    how = "loopy C target + gcc"
    try:
        out = run_kernel_numerically(G.bp.program, G.data)
        got = {k: out[k] for k in want}
    except Exception as e:  # noqa: BLE001
        how = f"numeric kernel interpreter (loopy's C executor cannot run this kernel: {type(e).__name__})"
        alg = RenamingAlg(NumAlg(G.data), G.rename)
        got = {}
        for k in want:
            w = np.asarray(want[k])
            g = np.empty(w.shape, dtype=w.dtype)
            for idx in itertools.product(*[range(n) for n in w.shape]):
                g[idx] = G.model.at(alg, k, idx)
            got[k] = g
    for k in want:
        if names and k not in names:
            continue
        w = np.asarray(want[k])
        g = np.asarray(got[k])
        scale = float(np.max(np.abs(w))) if w.size and w.dtype.kind in "fc" else 1.0
        atol = 1e-8
        if w.dtype.kind in "fc" and (w.dtype.itemsize // (2 if w.dtype.kind == "c" else 1)) <= 4:
            # single precision: sums cancel (the result may be tiny against its summands) and the order of a float32
            # sum is not NumPy's -- compare against the magnitude of the inputs, with float32's unit round-off
            mags = [float(np.max(np.abs(v))) for v in G.data.values()
                    if isinstance(v, np.ndarray) and v.size and v.dtype.kind in "fc" and np.all(np.isfinite(v))]
            scale = max([scale, 1.0] + mags) * max(1, max((v.size for v in G.data.values() if isinstance(v, np.ndarray)), default=1))
            atol = 1e-6
        finite = np.isfinite(w) if w.dtype.kind in "fc" else None
        if g.shape != w.shape or not num_close(g, w, atol=atol, scale=max(1.0, scale)):
            bad.append((k, {"engine": how, "got": np.asarray(g).tolist() if g.size < 40 else "...",
                            "want": w.tolist() if w.size < 40 else "..."}))
    return bad, how


def kernel_job(prog: str, order: str = "given", seed: int = 0) -> JobOut:
    progs = {p.name: p for p in C.corpus("thorough" if prog.startswith(("gen", "g2_")) else "quick", seed, exclude=())}
    P = progs[prog]
    listed = load_findings("C01")
    try:
        C.build_pytato(P)
    except Exception as e:  # noqa: BLE001
        return JobOut(declined=f"program not constructible: {type(e).__name__}: {e}")
    try:
        G = generate(P, out_order=ORDERS[order])
    except Exception as e:  # noqa: BLE001
        import traceback
        return JobOut(sides=[Side(f"{prog}/{order}/generate_loopy-succeeds", False,
                                  f"{type(e).__name__}: {e}\n{traceback.format_exc(limit=6)}")])
    sides = []
    pre = f"{prog}/{order}"
    probs = list(G.model.structural_problems)
    KEY = "c01-zero-size-stored-reduction"
    if KEY in listed and "zsr" in P.tags:
        # listed finding: keyed by exactly this program and this kind of malformation; anything else still counts
        mine = [q for q in probs if "has no domain" in q]
        probs = [q for q in probs if "has no domain" not in q]
        sides.append(Side(f"known:{KEY}", ok=not mine, detail=mine[:3]))
    sides.append(Side(f"{pre}/kernel-structure", not probs, probs[:5]))
    data = G.data
    want_np = C.build_numpy(P, data)
    table = arg_table(G.model)
    # declared names / shapes / dtypes of arguments
    ok, det = True, []
    for k, v in want_np.items():
        v = np.asarray(v)
        skip_dtype = any(key in listed for key in ()) and False
        if k not in table:
            ok = False
            det.append(f"output {k} is not a kernel argument")
            continue
        shp, dt, is_out, _ = table[k]
        if shp != v.shape or not is_out:
            ok = False
            det.append(f"{k}: kernel {shp} out={is_out}, NumPy {v.shape}")
        if dt != G.dag[k].dtype:
            ok = False
            det.append(f"{k}: kernel dtype {dt}, expression dtype {G.dag[k].dtype}")
    for n, shp, dt, kind in P.inputs:
        nm = n if kind == "ph" else {v: k for k, v in G.rename.items()}.get(n)
        used = nm in table
        if used and (table[nm][0] != tuple(shp) or table[nm][1] != np.dtype(dt)):
            ok = False
            det.append(f"input {n}: kernel {table[nm][:2]}, declared {(tuple(shp), np.dtype(dt))}")
    sides.append(Side(f"{pre}/argument-names-shapes-dtypes", ok, det))
    # bound arguments are the wrapped objects themselves, bytes untouched
    sides.append(Side(f"{pre}/bound-data-identity", all(any(obj is d for d in data.values())
                                                        for obj in G.bp.bound_arguments.values())))

    kinds = C.kinds_of(P)
    xp_cache = {}

    def ref_for(alg):
        if id(alg) not in xp_cache:
            xp_cache[id(alg)] = C.build_ref(P, SymNP(alg))[0]
        return xp_cache[id(alg)]

    outputs = {}
    for k, v in want_np.items():
        shape = np.asarray(v).shape

        def mk_a(alg, k=k):
            ralg = RenamingAlg(alg, G.rename)
            return lambda idx: G.model.at(ralg, k, idx)

        def mk_b(alg, k=k):
            r = ref_for(alg)[k]
            return lambda idx: r.at(idx)
        outputs[k] = (shape, mk_a, mk_b)
    obs = value_obs(pre, outputs, kinds, data, nsk=8, timeout=180,
                    info={"program": prog, "output order": order, "oracle": "NumPy semantics (symnp)",
                          "artifact": "kernel from generate_loopy, read by the kernel interpreter"})
    # numeric replay of the whole kernel for candidates: wrap each obligation's replay
    for ob in obs:
        base = ob._replay

        def replay(o, args, base=base, name=ob.oid.rsplit("/", 1)[1]):
            rep, detail = base(o, args)
            if not rep:
                return rep, detail
            bad, how = numeric_replay_against_numpy(G, {name})
            if bad:
                return True, {"numeric": detail, "real_kernel_vs_numpy": bad[0][1], "engine": how}
            return False, {"why": "interpreter-level mismatch not confirmed by executing the real kernel", "engine": how}
        ob._replay = replay
    if order == "given":
        # encoding validation (sampled data, NOT a solver verdict): the real kernel, compiled by loopy's C target and
        # gcc, agrees with NumPy on the default data and on copies with NaN/inf injected.  It ties the kernel
        # interpreter to what the kernel really computes and reaches what the term algebra abstracts away (integer
        # widths, special values that only exist in data).
        st, res = _in_child(lambda: numeric_replay_against_numpy(G))
        if st == "ok":
            bad, how = res
            sides.append(Side(f"{pre}/real-kernel-run-agrees-with-numpy-on-sample-data", not bad,
                              {"engine": how, "first": bad[0] if bad else None}))
        else:
            # (loopy's ctypes-based C executor is not robust for every kernel -- it can even crash the process; that
            #  is the executor's problem, not the kernel's: recorded, not judged)
            sides.append(Side(f"{pre}/real-kernel-run-agrees-with-numpy-on-sample-data", True, f"not run: {res}"))
    return JobOut(obs=obs, sides=sides, info={"program": prog, "order": order})


def jobs(tier: str, seed: int):
    th = tier == "thorough"
    progs = C.corpus(tier, seed, exclude=())
    J = []
    for i, P in enumerate(progs):
        orders = list(ORDERS) if th or i % 3 == 0 else ["given"]
        for o in orders:
            J.append(Job(MOD, "kernel_job", {"prog": P.name, "order": o, "seed": seed}, jid=f"{P.name}/{o}",
                         hard_timeout=1200))
    meta = {
        "programs": len(progs),
        "explanation": "Translation validation of generate_loopy: per program the generated kernel (read from the real "
                       "TranslationUnit) is evaluated at a symbolic element index over uninterpreted inputs and compared "
                       "by CrossHair/z3 with NumPy's meaning of the program, per output; reductions in lock step.",
        "bounds": {"programs": f"{len(progs)} (committed corpus + {120 if th else 24} programs of the shape-aware seeded generator{' + 40 of the first generator' if th else ''}); <= 4 axes of length "
                               "<= 5, 1..9 outputs", "output orders": list(ORDERS),
                   "inputs / element indices": "all (uninterpreted inputs, symbolic index)"},
        "outside": ["loopy's own lowering of the TranslationUnit to C/OpenCL (trusted dependency; sampled by the "
                    "encoding-validation side only)",
                    "integer wrap-around, float rounding, NaN/inf that exist only in data (abstracted by the term algebra; "
                    "reached only by the sampled runs of the real kernel: default data + NaN/inf injected, program "
                    "mixed_int_widths with extreme integers)",
                    "programs outside the corpus / generator"],
        "encoding_validation": "per program (given order) the real kernel is compiled by loopy's C target + gcc and run "
                               "on the default data and on two copies with NaN/inf injected; it must agree with NumPy "
                               "(sampling, not a solver verdict; falls back to the numeric kernel interpreter where "
                               "loopy's C executor cannot run the kernel)",
        "stubs": ["LoopyTarget subclass selecting loopy's C target (no OpenCL)"],
    }
    return J, meta
