"""C14 -- Python (NumPy-like) code generation computes what NumPy computes.

The real ``generate_numpy_like`` runs on each static corpus program with a
target whose "NumPy-like module" is ``symnp`` (NumPy's documented semantics on
lazy arrays; it refuses any attribute the installed NumPy does not have).  The
real ``BoundPythonProgram.__call__`` binds the arguments and ``exec``s the real
generated source, which thereby becomes a function over lazy arrays; every
output is compared at a symbolic index over uninterpreted inputs with the
program's NumPy meaning (CrossHair/z3).  Candidates and exceptions are replayed
by running the generated source with the *real* NumPy.
"""
from __future__ import annotations

import ast
import itertools
import sys

import numpy as np

from pv import corpus as C
from pv.drive import HarnessError, Job, JobOut, Side
from pv.props.tcommon import value_obs
from pv.sem.alg import TermAlg, num_close
from pv.sem.symnp import SymNP

LEVEL = "translation_validation"
MOD = "pv.props.c14"
MODNAME = "pv_symnp_module"


def _target(module_name):
    from pytato.target.python import BoundPythonProgram, NumpyLikePythonTarget

    class T(NumpyLikePythonTarget):
        @property
        def numpy_like_module_name(self):
            return module_name

        @property
        def numpy_like_module_name_shorthand(self):
            return "_pt_np"

        def bind_program(self, program, entrypoint, expected_arguments, bound_arguments):
            return BoundPythonProgram(target=self, program=program, entrypoint=entrypoint,
                                      expected_arguments=expected_arguments, bound_arguments=bound_arguments)
    return T()


def generate(P, data, module_name=MODNAME):
    import pytato as pt
    from pytato.target.python.numpy_like import generate_numpy_like
    outs, ins = C.build_pytato(P, data)
    dag = pt.transform.deduplicate(pt.make_dict_of_named_arrays(outs))
    bp = generate_numpy_like(dag, _target(module_name), function_name="_pt_kernel", show_code=False,
                             entrypoint_decorators=(), extra_preambles=())
    return dag, ins, bp


def run_with(bp, module, inputs, module_name=MODNAME):
    """exec the real generated source against *module* through the real BoundPythonProgram.__call__"""
    old = sys.modules.get(module_name)
    sys.modules[module_name] = module
    try:
        prog = bp.copy()                    # fresh (un-exec'd) program object
        return prog(**inputs)
    finally:
        if old is None:
            sys.modules.pop(module_name, None)
        else:
            sys.modules[module_name] = old


def python_job(prog: str, seed: int = 0) -> JobOut:
    progs = {p.name: p for p in C.corpus("thorough" if prog.startswith(("gen", "g2_")) else "quick", seed)}
    P = progs[prog]
    data = {n: C.default_data(n, shp, dt, P) for n, shp, dt, _ in P.inputs}
    try:
        C.build_pytato(P, data)
    except Exception as e:  # noqa: BLE001
        return JobOut(declined=f"program not constructible: {type(e).__name__}: {e}")
    try:
        dag, ins, bp = generate(P, data)
    except NotImplementedError as e:
        return JobOut(declined=f"not-supported error (allowed): {e}")
    except Exception as e:  # noqa: BLE001
        import traceback
        from pytato.diagnostic import UnknownIndexLambdaExpr
        if isinstance(e, UnknownIndexLambdaExpr) or isinstance(e.__cause__, UnknownIndexLambdaExpr):
            return JobOut(declined=f"not-supported diagnostic (allowed): UnknownIndexLambdaExpr: {e}")
        return JobOut(sides=[Side(f"{prog}/generate-raises-only-not-supported", False,
                                  f"{type(e).__name__}: {e}\n{traceback.format_exc(limit=5)}")])
    sides = []
    ph_names = {n for n, _, _, k in P.inputs if k == "ph"}
    dw = {n for n, _, _, k in P.inputs if k == "dw"}
    bound_names = set(bp.bound_arguments)
    used_ph = set(bp.expected_arguments) - bound_names
    tree = ast.parse(bp.program)
    fdef = [n for n in tree.body if isinstance(n, ast.FunctionDef)][0]
    kwonly = {a.arg for a in fdef.args.kwonlyargs}
    sides.append(Side(f"{prog}/arguments-are-exactly-the-inputs",
                      used_ph <= ph_names and kwonly == set(bp.expected_arguments) and not fdef.args.args,
                      {"expected": sorted(bp.expected_arguments), "kwonly": sorted(kwonly), "placeholders": sorted(ph_names)}))
    sides.append(Side(f"{prog}/wrapped-data-is-prebound",
                      all(any(obj is data[n] for n in dw) for obj in bp.bound_arguments.values())
                      and len(bound_names) <= len(dw), sorted(bound_names)))
    rename = {g: n for g, obj in bp.bound_arguments.items() for n in dw if obj is data[n]}

    # real NumPy run of the generated source (replay engine; also a concrete side assertion)
    def real_numpy_run():
        import numpy
        inputs = {n: data[n] for n in used_ph}
        with np.errstate(all="ignore"):
            return run_with(bp, numpy, inputs)
    want = C.build_numpy(P, data)
    try:
        got_np = real_numpy_run()
        bad = [k for k in want if np.asarray(got_np[k]).shape != np.asarray(want[k]).shape
               or (np.asarray(got_np[k]).dtype != np.asarray(want[k]).dtype and dag[k].dtype == np.asarray(want[k]).dtype)
               or not num_close(got_np[k], want[k], scale=max(1.0, float(np.max(np.abs(want[k]))) if np.asarray(want[k]).size and np.asarray(want[k]).dtype.kind in "fc" else 1.0))]
        sides.append(Side(f"{prog}/generated-source-with-real-numpy-equals-numpy", not bad, {"differing outputs": bad}))
    except Exception as e:  # noqa: BLE001
        sides.append(Side(f"{prog}/generated-source-runs-with-real-numpy", False, f"{type(e).__name__}: {e}"))
        return JobOut(sides=sides)

    # one program object called repeatedly: every call takes exactly the caller's inputs (nothing is remembered)
    try:
        import numpy
        old = sys.modules.get(MODNAME)
        sys.modules[MODNAME] = numpy
        try:
            progobj = bp.copy()
            with np.errstate(all="ignore"):
                progobj(**{n: data[n] for n in used_ph})
                data2 = {n: (d * 0.5 + 1.25 if isinstance(d, np.ndarray) and d.dtype.kind == "f" and n in ph_names else d)
                         for n, d in data.items()}
                got2 = progobj(**{n: data2[n] for n in used_ph})
                want2 = C.build_numpy(P, data2)
            bad2 = [k for k in want2 if not num_close(got2[k], want2[k], scale=max(1.0, float(np.max(np.abs(want2[k])))
                                                     if np.asarray(want2[k]).size and np.asarray(want2[k]).dtype.kind in "fc" else 1.0))]
            stale = None
            if used_ph:
                missing = sorted(used_ph)[0]
                try:
                    progobj(**{n: data2[n] for n in used_ph if n != missing})
                    stale = f"a call without the input {missing!r} was accepted"
                except Exception:  # noqa: BLE001
                    pass
            sides.append(Side(f"{prog}/repeated-calls-take-exactly-the-callers-inputs", not bad2 and stale is None,
                              {"second call differs from NumPy on": bad2, "missing input": stale}))
        finally:
            if old is None:
                sys.modules.pop(MODNAME, None)
            else:
                sys.modules[MODNAME] = old
    except Exception as e:  # noqa: BLE001
        sides.append(Side(f"{prog}/repeated-calls-take-exactly-the-callers-inputs", False, f"{type(e).__name__}: {e}"))

    kinds = C.kinds_of(P)

    def mk_pair():
        cache = {}

        def results(alg):
            if id(alg) not in cache:
                xp = SymNP(alg)
                ref, rins = C.build_ref(P, xp)
                inputs = {n: rins[n] for n in used_ph}
                # wrapped data stays uninterpreted: bind the lazy input under the generated name
                prog_b = bp.copy(bound_arguments={g: rins[n] for g, n in rename.items()})
                got = run_with(prog_b, xp, inputs)
                cache[id(alg)] = (got, ref)
            return cache[id(alg)]
        return results
    results = mk_pair()
    try:
        got0, ref0 = results(TermAlg(kinds))
    except HarnessError as e:
        return JobOut(sides=sides, declined=f"harness: symnp cannot run the generated code: {e}")
    except Exception as e:  # noqa: BLE001
        sides.append(Side(f"{prog}/generated-source-runs-on-lazy-arrays", False, f"{type(e).__name__}: {e}"))
        return JobOut(sides=sides)
    sides.append(Side(f"{prog}/same-output-names", set(got0) == set(ref0), [sorted(got0), sorted(ref0)]))
    outputs = {}
    for k in ref0:
        if k not in got0:
            continue
        g = got0[k]
        if not hasattr(g, "at"):
            g = None
        shape_ok = g is not None and tuple(g.shape) == tuple(ref0[k].shape)
        sides.append(Side(f"{prog}/shape/{k}", shape_ok, [getattr(got0[k], "shape", None), ref0[k].shape]))
        if not shape_ok:
            continue

        def mk_a(alg, k=k):
            r = results(alg)[0][k]
            return lambda idx: r.at(idx)

        def mk_b(alg, k=k):
            r = results(alg)[1][k]
            return lambda idx: r.at(idx)
        outputs[k] = (ref0[k].shape, mk_a, mk_b)
    obs = value_obs(prog, outputs, kinds, data, nsk=8, timeout=180,
                    info={"program": prog, "artifact": "generated Python source exec'd by BoundPythonProgram on lazy arrays",
                          "oracle": "the program's NumPy meaning (symnp)"})
    for ob in obs:
        base = ob._replay

        def replay(o, args, base=base, name=ob.oid.rsplit("/", 1)[1]):
            rep, detail = base(o, args)
            if not rep:
                return rep, detail
            got = real_numpy_run()
            w = np.asarray(want[name])
            if np.asarray(got[name]).shape != w.shape or not num_close(got[name], w):
                return True, {"lazy": detail, "real_numpy_run": np.asarray(got[name]).tolist(), "numpy": w.tolist()}
            return False, {"why": "not confirmed by running the generated source with real NumPy"}
        ob._replay = replay
    return JobOut(obs=obs, sides=sides)


def jobs(tier: str, seed: int):
    progs = C.corpus(tier, seed, exclude=("csr", "loopycall"))     # outside C14's stated fragment
    J = [Job(MOD, "python_job", {"prog": P.name, "seed": seed}, jid=P.name, hard_timeout=900) for P in progs]
    meta = {
        "programs": len(progs),
        "explanation": "Translation validation of the NumPy-like Python target: the real generated source is exec'd by the "
                       "real BoundPythonProgram with a lazy NumPy-compatible module, each output compared at a symbolic "
                       "index over uninterpreted inputs with the program's NumPy meaning (CrossHair/z3); the same source is "
                       "also run with the real NumPy (side assertion and replay).",
        "bounds": {"programs": [p.name for p in progs], "inputs / element indices": "all"},
        "outside": ["JAX itself (not installed): the claim is for the NumPy-compatible interface jax.numpy mirrors",
                    "size-parameter shapes, CSR matmul, loopy calls (target raises a not-supported error)"],
        "stubs": ["NumpyLikePythonTarget subclass naming the lazy module 'pv_symnp_module' (registered in sys.modules)"],
    }
    return J, meta
