"""Shared machinery of the translation-validation properties: per-output value
obligations over symbolic indices, numeric replay, structural fingerprints."""
from __future__ import annotations

import dataclasses
import itertools

import numpy as np

from pv.drive import FnOb
from pv.props.common import Skolems, idx_params, in_range, sk_params, take, teq
from pv.sem.alg import NumAlg, TermAlg, alias_map, num_close


def value_obs(prefix, outputs, kinds, numeric_data, nsk=6, timeout=120, info=None, max_obs=None, nonneg=()):
    """outputs: name -> (shape, mk_a, mk_b) with mk_x(alg) -> callable(idx) -> value.
    One obligation per output: for all idx in shape: a(idx) == b(idx) in the
    term algebra.  Replay: numeric evaluation of both sides (and nothing else is
    believed): a candidate is reproduced only if the numeric values differ."""
    obs = []
    for name, (shape, mk_a, mk_b) in list(outputs.items())[:max_obs]:
        shape = tuple(int(s) for s in shape)
        nd = len(shape)
        alg = TermAlg(kinds, aliases=alias_map(numeric_data), nonneg=nonneg)
        fa, fb = mk_a(alg), mk_b(alg)
        params = idx_params(nd) + sk_params(nsk)

        def pre(shape=shape, nd=nd, **p):
            return in_range(take(p, "i", nd), shape)

        def body(ob, fa=fa, fb=fb, nd=nd, **p):
            idx = take(p, "i", nd)
            ob.reach()
            sk = Skolems(take(p, "k", nsk))
            return teq(fa(idx), fb(idx), sk)

        def replay(ob, args, shape=shape, mk_a=mk_a, mk_b=mk_b, name=name):
            # trial 1: pairwise distinct finite data; trials 2..: NaN / inf injected into float inputs (the property
            # covers NaN/inf inputs; a term mismatch may only show there)
            # (no NaN/inf trials where a reduction is involved: the value of a sum over non-finite data depends on its
            #  order and factorisation -- outside the NaN-aware fragment)
            try:
                talg = TermAlg(kinds)
                zero = tuple(0 for _ in shape)
                with_red = _has_red(mk_a(talg)(zero)) or _has_red(mk_b(talg)(zero))
            except Exception:  # noqa: BLE001
                with_red = True
            for trial, data in enumerate(special_value_trials(numeric_data) if not with_red else [numeric_data]):
                nalg = NumAlg(data)
                na, nb = mk_a(nalg), mk_b(nalg)
                for idx in itertools.product(*[range(n) for n in shape]):
                    try:
                        va, vb = na(idx), nb(idx)
                    except Exception as e:  # noqa: BLE001
                        if trial:
                            continue
                        return True, {"output": name, "index": list(idx), "exception": f"{type(e).__name__}: {e}"}
                    if not num_close(va, vb):
                        return True, {"output": name, "index": list(idx), "a": repr(va), "b": repr(vb),
                                      "inputs": "finite, pairwise distinct" if trial == 0 else f"NaN/inf injected (trial {trial})"}
            return False, {"why": "term mismatch but numerically equal at every index (abstraction artefact)"}

        size = int(np.prod(shape)) if nd else 1
        if size == 0:
            continue        # no index exists: nothing to prove (shape agreement is a side assertion)
        smp = {f"i{d}": 0 for d in range(nd)} | {f"k{d}": 0 for d in range(nsk)}
        obs.append(FnOb(f"{prefix}/{name}", params, body, pre, [smp], timeout=timeout, replay=replay,
                        info={"output": name, "shape": list(shape), **(info or {})}))
    return obs


def _has_red(t, depth=0):
    from pv.sem.alg import Red
    if isinstance(t, Red):
        return True
    if isinstance(t, tuple) and depth < 60:
        return any(_has_red(x, depth + 1) for x in t)
    return False


def special_value_trials(data):
    """numeric input sets for replay: the given data, then copies whose float arrays have NaN (and inf) cells at
    deterministic positions (different positions per input, so that 'NaN in exactly one operand' occurs)"""
    yield data
    names = sorted(k for k, v in data.items() if isinstance(v, np.ndarray) and v.dtype.kind in "fc" and v.size)
    for trial in (1, 2):
        d2 = dict(data)
        for j, k in enumerate(names):
            a = np.array(data[k], copy=True)
            flat = a.reshape(-1)
            flat[(j + trial) % flat.size] = np.nan
            if flat.size > 2:
                flat[(2 * j + trial + 1) % flat.size] = np.inf if trial == 1 else -np.inf
            d2[k] = a
        yield d2


# ---------------------------------------------------------------------------
# reflective structural fingerprint (independent of pytato's __eq__/__hash__)

def fingerprint(obj, strip_tags=False, with_ids=False):
    memo = {}

    def fp(o):
        import pytato.array as A
        from pytato.function import FunctionDefinition
        k = id(o)
        if isinstance(o, (A.Array, A.AbstractResultWithNamedArrays, FunctionDefinition)) or dataclasses.is_dataclass(o):
            if k in memo:
                return memo[k]
        if isinstance(o, A.DictOfNamedArrays):
            r = ("DictOfNamedArrays", tuple(sorted((n, fp(v)) for n, v in o._data.items())),
                 () if strip_tags else fp(o.tags))
        elif isinstance(o, np.ndarray):
            r = ("ndarray", id(o) if with_ids else 0, str(o.dtype), o.shape, hash(o.tobytes()))
        elif dataclasses.is_dataclass(o) and not isinstance(o, type):
            items = []
            for f in dataclasses.fields(o):
                if f.name == "non_equality_tags":
                    continue
                if strip_tags and f.name in ("tags", "axes", "var_to_reduction_descr", "redn_axis_to_redn_descr",
                                             "reduction_descr"):
                    v = getattr(o, f.name)
                    items.append((f.name, len(v) if hasattr(v, "__len__") and f.name != "tags" else 0))
                    continue
                items.append((f.name, fp(getattr(o, f.name))))
            r = (type(o).__name__, tuple(items))
        elif isinstance(o, dict) or hasattr(o, "items") and hasattr(o, "keys"):
            r = ("map", tuple(sorted(((repr(kk), fp(v)) for kk, v in o.items()))))
        elif isinstance(o, (tuple, list)):
            r = ("seq", tuple(fp(v) for v in o))
        elif isinstance(o, (frozenset, set)):
            r = ("set", tuple(sorted(repr(fp(v)) for v in o)))
        elif isinstance(o, np.dtype):
            r = ("dtype", str(o))
        elif isinstance(o, (int, float, complex, str, bool, type(None), np.generic)):
            r = (type(o).__name__, repr(o))
        else:
            r = ("repr", repr(o))
        memo[k] = r
        return r
    return fp(obj)
