"""C02 -- lowering any array node to an index lambda preserves its meaning.

Every harness builds the node through the *real* public API with symbolic
node parameters (shape entries, shift, slice start/stop/step, int indices,
operand lengths), lowers it with the *real* ``to_index_lambda``, evaluates the
resulting ``IndexLambda.expr`` at a symbolic index with ``pv.sem.ilsem`` and
compares with NumPy's documented meaning (``pv.sem.symnp``) in the term
algebra: equal terms = equal value for every input array.
"""
from __future__ import annotations

import itertools

import numpy as np

from pv.drive import FnOb, Job, JobOut
from pv.props.common import (Skolems, idx_params, in_range, kinds_of, refusal_types, sk_params, take,
                             teq, term_xp)
from pv.sem.ptsem import PtEval

LEVEL = "other"
MOD = "pv.props.c02"
F64 = np.float64


def _finish(ob, node, ref, p, nidx_max, nsk, alg, eval_sizes=None):
    """common tail: lower with the real code, compare metadata and values"""
    from pytato.array import InputArgumentBase
    from pytato.transform.lower_to_index_lambda import to_index_lambda
    if isinstance(node, InputArgumentBase):
        il = node      # the API returned its operand unchanged (documented no-op shortcut)
    else:
        il = to_index_lambda(node)          # exceptions here propagate = candidate
    nd = len(node.shape)
    if len(il.shape) != nd or len(ref.shape) != nd:
        ob.last_detail = {"why": "rank", "il": len(il.shape), "node": nd, "numpy": len(ref.shape)}
        return False
    for a, b, c in zip(il.shape, node.shape, ref.shape):
        if not (a == b and b == c):
            ob.last_detail = {"why": "shape", "il": il.shape, "node": node.shape, "numpy": ref.shape}
            return False
    if not (il.dtype == node.dtype and il.axes == node.axes and il.tags == node.tags
            and il.non_equality_tags == node.non_equality_tags):
        ob.last_detail = {"why": "metadata (dtype/axes/tags) of index lambda differs from node"}
        return False
    if node.dtype != ref.dtype:
        ob.last_detail = {"why": "dtype", "node": str(node.dtype), "numpy": str(ref.dtype)}
        return False
    if nd > nidx_max:
        raise AssertionError("harness: not enough index parameters")
    idx = take(p, "i", nd)
    if not in_range(idx, ref.shape):
        return True
    ob.reach()
    sk = Skolems(take(p, "k", nsk))
    got = PtEval(alg).at(il, idx)
    want = ref.at(idx)
    ok = teq(got, want, sk)
    if not ok:
        ob.last_detail = {"why": "value", "index": idx}
    return ok


def _numeric_replay(mk_numeric):
    """Replay for value mismatches: evaluate the real index lambda numerically
    on arrays with pairwise distinct cells against real NumPy."""
    def replay(ob, args):
        try:
            return mk_numeric(ob, args)
        except Exception as e:  # noqa: BLE001
            import traceback
            return True, {"exception": f"{type(e).__name__}: {e}", "tb": traceback.format_exc(limit=6)}
    return replay


def _distinct(shape, dtype=F64, base=1.0):
    n = int(np.prod(shape)) if len(shape) else 1
    return (np.arange(n, dtype=np.float64) * 1.25 + base).reshape(shape).astype(dtype)


def _generic_numeric(build_np):
    """build_np(args) -> (node, want ndarray, arrays dict) using real NumPy as oracle.
    Compares the real IndexLambda evaluated numerically at *every* index."""
    def run(ob, args):
        from pytato.transform.lower_to_index_lambda import to_index_lambda
        from pv.sem.alg import NumAlg, num_close
        try:
            node, want, arrays = build_np(args)
        except refusal_types() as e:
            return False, {"why": f"declined concretely: {type(e).__name__}: {e}"}
        from pytato.array import InputArgumentBase
        il = node if isinstance(node, InputArgumentBase) else to_index_lambda(node)
        want = np.asarray(want)
        if tuple(il.shape) != want.shape or il.dtype != want.dtype:
            return True, {"why": "shape/dtype", "il": [list(il.shape), str(il.dtype)],
                          "numpy": [list(want.shape), str(want.dtype)]}
        ev = PtEval(NumAlg(arrays))
        for idx in itertools.product(*[range(n) for n in want.shape]):
            got = ev.at(il, idx)
            if not num_close(got, want[idx]):
                return True, {"index": list(idx), "got": repr(got), "want": repr(want[idx]),
                              "args": args}
        return False, {"why": "numerically equal to NumPy at every index"}
    return _numeric_replay(run)


# ---------------------------------------------------------------------------
# Roll

def roll(ndim: int, axis: int, maxlen: int = 5) -> JobOut:
    import pytato as pt
    alg, xp = term_xp(kinds_of(a=F64))
    params = [(f"n{d}", "int") for d in range(ndim)] + [("shift", "int")] + idx_params(ndim) + sk_params(1)

    def pre(**p):
        return all(0 <= p[f"n{d}"] <= maxlen for d in range(ndim))

    def body(ob, **p):
        shape = take(p, "n", ndim)
        a = pt.make_placeholder("a", shape, F64)
        try:
            node = pt.roll(a, p["shift"], axis)
        except refusal_types():
            return True
        ref = xp.roll(xp.input("a", shape, F64), p["shift"], axis)
        return _finish(ob, node, ref, p, ndim, 1, alg)

    def np_build(args):
        shape = tuple(args[f"n{d}"] for d in range(ndim))
        arr = _distinct(shape)
        node = pt.roll(pt.make_placeholder("a", shape, F64), args["shift"], axis)
        return node, np.roll(arr, args["shift"], axis), {"a": arr}

    smp = {f"n{d}": 3 for d in range(ndim)} | {"shift": 7} | {f"i{d}": 1 for d in range(ndim)} | {"k0": 0}
    return JobOut(obs=[FnOb(f"roll/nd{ndim}/ax{axis}", params, body, pre, [smp], timeout=60,
                            unbounded=("shift",), replay=_generic_numeric(np_build),
                            info={"node": "Roll", "shape": f"{ndim} axes, each 0..{maxlen} symbolic",
                                  "shift": "all integers", "axis": axis})])


# ---------------------------------------------------------------------------
# AxisPermutation

def axis_permutation(ndim: int, maxlen: int = 4) -> JobOut:
    import pytato as pt
    alg, xp = term_xp(kinds_of(a=F64))
    perms = list(itertools.permutations(range(ndim)))
    params = [(f"n{d}", "int") for d in range(ndim)] + [("pk", "int"), ("neg", "bool")] \
        + idx_params(ndim) + sk_params(1)

    def pre(**p):
        return all(0 <= p[f"n{d}"] <= maxlen for d in range(ndim)) and 0 <= p["pk"] < len(perms)

    def pick(p):
        perm = perms[-1]
        for j, q in enumerate(perms[:-1]):
            if p["pk"] == j:
                perm = q
                break
        return perm

    def body(ob, **p):
        shape = take(p, "n", ndim)
        perm = pick(p)
        a = pt.make_placeholder("a", shape, F64)
        try:
            node = pt.transpose(a, perm)
        except refusal_types():
            return True
        ref = xp.transpose(xp.input("a", shape, F64), perm)
        return _finish(ob, node, ref, p, ndim, 1, alg)

    def np_build(args):
        shape = tuple(args[f"n{d}"] for d in range(ndim))
        arr = _distinct(shape)
        perm = perms[args["pk"]]
        return pt.transpose(pt.make_placeholder("a", shape, F64), perm), np.transpose(arr, perm), {"a": arr}

    smp = {f"n{d}": d + 2 for d in range(ndim)} | {"pk": len(perms) - 1, "neg": False} \
        | {f"i{d}": 1 for d in range(ndim)} | {"k0": 0}
    return JobOut(obs=[FnOb(f"axis_permutation/nd{ndim}", params, body, pre, [smp], timeout=120,
                            replay=_generic_numeric(np_build),
                            info={"node": "AxisPermutation", "permutations": len(perms),
                                  "shape": f"{ndim} axes, each 0..{maxlen} symbolic"})])


# ---------------------------------------------------------------------------
# Reshape

def reshape(old_nd: int, new_nd: int, order: str, maxlen: int = 4, infer: bool = False) -> JobOut:
    import pytato as pt
    alg, xp = term_xp(kinds_of(a=F64))
    params = [(f"n{d}", "int") for d in range(old_nd)] + [(f"m{d}", "int") for d in range(new_nd)] \
        + idx_params(new_nd) + sk_params(1)
    lo = -1 if infer else 0
    newmax = maxlen ** max(old_nd, 1) if new_nd == 1 else maxlen
    oldmax = maxlen ** max(new_nd, 1) if old_nd == 1 else maxlen

    def pre(**p):
        if not (all(0 <= p[f"n{d}"] <= oldmax for d in range(old_nd))
                and all(lo <= p[f"m{d}"] <= newmax for d in range(new_nd))):
            return False
        if infer:
            return True
        a = 1
        for d in range(old_nd):
            a = a * p[f"n{d}"]
        b = 1
        for d in range(new_nd):
            b = b * p[f"m{d}"]
        return a == b

    def body(ob, **p):
        old = take(p, "n", old_nd)
        new = take(p, "m", new_nd)
        a = pt.make_placeholder("a", old, F64)
        try:
            ref = xp.reshape(xp.input("a", old, F64), new, order=order)
        except ValueError:
            ref = None
        try:
            node = pt.reshape(a, new, order=order)
        except refusal_types():
            return True
        if ref is None:
            # numpy rejects this reshape but pytato built a node: meaning undefined -> C03's business
            return True
        return _finish(ob, node, ref, p, new_nd, 1, alg)

    def np_build(args):
        old = tuple(args[f"n{d}"] for d in range(old_nd))
        new = tuple(args[f"m{d}"] for d in range(new_nd))
        arr = _distinct(old)
        node = pt.reshape(pt.make_placeholder("a", old, F64), new, order=order)
        return node, np.reshape(arr, new, order=order), {"a": arr}

    smp = {f"n{d}": 1 for d in range(old_nd)} | {f"m{d}": 1 for d in range(new_nd)} \
        | {f"i{d}": 0 for d in range(new_nd)} | {"k0": 0}
    return JobOut(obs=[FnOb(f"reshape/{old_nd}to{new_nd}/{order}{'/infer' if infer else ''}", params, body, pre,
                            [smp], timeout=300, replay=_generic_numeric(np_build),
                            info={"node": "Reshape", "order": order,
                                  "old_shape": f"{old_nd} axes 0..{maxlen} symbolic",
                                  "new_shape": f"{new_nd} axes symbolic{' incl. -1' if infer else ''}"})])


# ---------------------------------------------------------------------------
# BasicIndex

def basic_index(kinds: str, maxlen: int = 5, maxstep: int = 3) -> JobOut:
    """kinds: one letter per axis, 'i' int index, 's' slice, 'e' = trailing axes
    left to an Ellipsis / implicit full slices"""
    import pytato as pt
    alg, xp = term_xp(kinds_of(a=F64))
    nd = len(kinds)
    params = [(f"n{d}", "int") for d in range(nd)]
    unb = []
    for d, k in enumerate(kinds):
        if k == "i":
            params.append((f"x{d}", "int"))
        elif k == "s":
            params += [(f"a{d}", "optint"), (f"b{d}", "optint"), (f"c{d}", "optint")]
            unb += [f"a{d}", f"b{d}"]
    nres = sum(1 for k in kinds if k != "i")
    params += idx_params(nres) + sk_params(1)

    def pre(**p):
        for d, k in enumerate(kinds):
            if not (0 <= p[f"n{d}"] <= maxlen):
                return False
            if k == "s":
                c = p[f"c{d}"]
                if c is not None and not (-maxstep <= c <= maxstep):
                    return False
            if k == "i" and not (-p[f"n{d}"] - 2 <= p[f"x{d}"] <= p[f"n{d}"] + 1):
                # (pytato's IndexError message formats the index, which would make
                # CrossHair enumerate the unbounded out-of-range values one by one)
                return False
        return True

    def key(p):
        out = []
        for d, k in enumerate(kinds):
            if k == "i":
                out.append(p[f"x{d}"])
            elif k == "s":
                out.append(slice(p[f"a{d}"], p[f"b{d}"], p[f"c{d}"]))
            else:
                out.append(Ellipsis)
                break
        return tuple(out)

    def body(ob, **p):
        shape = take(p, "n", nd)
        a = pt.make_placeholder("a", shape, F64)
        k = key(p)
        try:
            ref = xp.input("a", shape, F64)[k]
        except (IndexError, ValueError):
            ref = None
        try:
            node = a[k]
        except refusal_types():
            return True
        if ref is None:
            return True      # NumPy rejects; acceptance by pytato is C03's subject
        return _finish(ob, node, ref, p, nres, 1, alg)

    def np_build(args):
        shape = tuple(args[f"n{d}"] for d in range(nd))
        arr = _distinct(shape)
        k = key(args)
        return pt.make_placeholder("a", shape, F64)[k], arr[k], {"a": arr}

    smp = {f"n{d}": min(4, maxlen) for d in range(nd)}
    for d, k in enumerate(kinds):
        if k == "i":
            smp[f"x{d}"] = -1
        elif k == "s":
            smp |= {f"a{d}": None, f"b{d}": 0, f"c{d}": -1}
    smp |= {f"i{d}": 0 for d in range(nres)} | {"k0": 0}
    smp2 = dict(smp)
    for d, k in enumerate(kinds):
        if k == "s":
            smp2 |= {f"a{d}": 0, f"b{d}": None, f"c{d}": min(2, maxstep)}
    return JobOut(obs=[FnOb(f"basic_index/{kinds}", params, body, pre, [smp, smp2],
                            timeout=600 if kinds.count("s") < 2 else 3000,
                            unbounded=tuple(unb), replay=_generic_numeric(np_build),
                            info={"node": "BasicIndex", "pattern": kinds,
                                  "axis_lengths": f"0..{maxlen} symbolic",
                                  "slice": f"start/stop in Z u {{None}}, step in +-1..{maxstep} u {{None}}",
                                  "int index": "-n-2..n+1 (every valid one and two invalid ones either side)"})])


# ---------------------------------------------------------------------------
# Stack / Concatenate

def stack(ndim: int, narr: int, axis: int, maxlen: int = 4) -> JobOut:
    import pytato as pt
    names = [f"a{j}" for j in range(narr)]
    alg, xp = term_xp({n: "f" for n in names})
    params = [(f"n{d}", "int") for d in range(ndim)] + idx_params(ndim + 1) + sk_params(1)

    def pre(**p):
        return all(0 <= p[f"n{d}"] <= maxlen for d in range(ndim))

    def body(ob, **p):
        shape = take(p, "n", ndim)
        arrs = [pt.make_placeholder(n, shape, F64) for n in names]
        try:
            node = pt.stack(arrs, axis)
        except refusal_types():
            return True
        ref = xp.stack([xp.input(n, shape, F64) for n in names], axis)
        return _finish(ob, node, ref, p, ndim + 1, 1, alg)

    def np_build(args):
        shape = tuple(args[f"n{d}"] for d in range(ndim))
        data = {n: _distinct(shape, base=100.0 * j) for j, n in enumerate(names)}
        node = pt.stack([pt.make_placeholder(n, shape, F64) for n in names], axis)
        return node, np.stack([data[n] for n in names], axis), data

    smp = {f"n{d}": 2 for d in range(ndim)} | {f"i{d}": 0 for d in range(ndim + 1)} | {"k0": 0}
    return JobOut(obs=[FnOb(f"stack/nd{ndim}/n{narr}/ax{axis}", params, body, pre, [smp], timeout=120,
                            replay=_generic_numeric(np_build),
                            info={"node": "Stack", "operands": narr, "axis": axis,
                                  "shape": f"{ndim} axes 0..{maxlen} symbolic"})])


def concatenate(ndim: int, narr: int, axis: int, maxlen: int = 4) -> JobOut:
    import pytato as pt
    names = [f"a{j}" for j in range(narr)]
    alg, xp = term_xp({n: "f" for n in names})
    params = [(f"n{d}", "int") for d in range(ndim)] + [(f"l{j}", "int") for j in range(narr)] \
        + idx_params(ndim) + sk_params(1)
    ax = axis % ndim

    def pre(**p):
        return (all(0 <= p[f"n{d}"] <= maxlen for d in range(ndim))
                and all(0 <= p[f"l{j}"] <= maxlen for j in range(narr)))

    def shapes(p):
        base = [p[f"n{d}"] for d in range(ndim)]
        out = []
        for j in range(narr):
            s = list(base)
            s[ax] = p[f"l{j}"]
            out.append(tuple(s))
        return out

    def body(ob, **p):
        shps = shapes(p)
        arrs = [pt.make_placeholder(n, s, F64) for n, s in zip(names, shps)]
        try:
            node = pt.concatenate(arrs, axis)
        except refusal_types():
            return True
        ref = xp.concatenate([xp.input(n, s, F64) for n, s in zip(names, shps)], axis)
        return _finish(ob, node, ref, p, ndim, 1, alg)

    def np_build(args):
        shps = shapes(args)
        data = {n: _distinct(s, base=100.0 * j) for j, (n, s) in enumerate(zip(names, shps))}
        node = pt.concatenate([pt.make_placeholder(n, s, F64) for n, s in zip(names, shps)], axis)
        return node, np.concatenate([data[n] for n in names], axis), data

    smp = {f"n{d}": 2 for d in range(ndim)} | {f"l{j}": j + 1 for j in range(narr)} \
        | {f"i{d}": 0 for d in range(ndim)} | {"k0": 0}
    return JobOut(obs=[FnOb(f"concatenate/nd{ndim}/n{narr}/ax{axis}", params, body, pre, [smp], timeout=180,
                            replay=_generic_numeric(np_build),
                            info={"node": "Concatenate", "operands": narr, "axis": axis,
                                  "lengths along axis": f"0..{maxlen} symbolic, independent per operand"})])


# ---------------------------------------------------------------------------
# Advanced indexing

_IDX_SHAPES = [(), (2,), (1,), (2, 3), (1, 3), (2, 1)]


def advanced_index(pattern: str, shp_sel: tuple, maxlen: int = 4, maxstep: int = 2) -> JobOut:
    """pattern: per axis 'A' (index array), 'i' int, 's' slice, ':' full slice.
    shp_sel: indices into _IDX_SHAPES for each 'A' (enumerated; must broadcast)."""
    import pytato as pt
    nd = len(pattern)
    n_adv = pattern.count("A")
    idx_shapes = [_IDX_SHAPES[k] for k in shp_sel]
    inames = [f"j{q}" for q in range(n_adv)]
    alg, xp = term_xp({"a": "f", **{n: "i" for n in inames}})
    params = [(f"n{d}", "int") for d in range(nd)]
    unb = []
    for d, k in enumerate(pattern):
        if k == "i":
            params.append((f"x{d}", "int"))
        elif k == "s":
            params += [(f"a{d}", "optint"), (f"b{d}", "optint"), (f"c{d}", "optint")]
            unb += [f"a{d}", f"b{d}"]
    bshape = np.broadcast_shapes(*idx_shapes)
    nres = len(bshape) + sum(1 for k in pattern if k in "s:")
    params += idx_params(nres) + sk_params(1)

    def pre(**p):
        for d, k in enumerate(pattern):
            if not (0 <= p[f"n{d}"] <= maxlen):
                return False
            if k == "s":
                c = p[f"c{d}"]
                if c is not None and not (-maxstep <= c <= maxstep):
                    return False
            if k == "i" and not (-p[f"n{d}"] - 2 <= p[f"x{d}"] <= p[f"n{d}"] + 1):
                return False
        return True

    def key(p, arrs):
        out = []
        q = 0
        for d, k in enumerate(pattern):
            if k == "A":
                out.append(arrs[q])
                q += 1
            elif k == "i":
                out.append(p[f"x{d}"])
            elif k == "s":
                out.append(slice(p[f"a{d}"], p[f"b{d}"], p[f"c{d}"]))
            else:
                out.append(slice(None))
        return tuple(out)

    def body(ob, **p):
        shape = take(p, "n", nd)
        a = pt.make_placeholder("a", shape, F64)
        pidx = [pt.make_placeholder(n, s, np.int64) for n, s in zip(inames, idx_shapes)]
        ridx = [xp.input(n, s, np.int64) for n, s in zip(inames, idx_shapes)]
        try:
            ref = xp.input("a", shape, F64)[key(p, ridx)]
        except (IndexError, ValueError):
            ref = None
        try:
            node = a[key(p, pidx)]
        except refusal_types():
            return True
        if ref is None:
            return True
        return _finish(ob, node, ref, p, nres, 1, alg)

    def np_build(args):
        shape = tuple(args[f"n{d}"] for d in range(nd))
        arr = _distinct(shape)
        rng = np.random.default_rng(5)
        data = {"a": arr}
        q = 0
        for d, k in enumerate(pattern):
            if k == "A":
                n = shape[d]
                data[inames[q]] = rng.integers(-n, n, idx_shapes[q]) if n > 0 else np.zeros(idx_shapes[q], np.int64)
                q += 1
        a = pt.make_placeholder("a", shape, F64)
        pidx = [pt.make_placeholder(n, s, np.int64) for n, s in zip(inames, idx_shapes)]
        node = a[key(args, pidx)]
        want = arr[key(args, [data[n] for n in inames])]
        return node, want, data

    smp = {f"n{d}": min(3, maxlen) for d in range(nd)}
    for d, k in enumerate(pattern):
        if k == "i":
            smp[f"x{d}"] = -2
        elif k == "s":
            smp |= {f"a{d}": None, f"b{d}": None, f"c{d}": -1}
    smp |= {f"i{d}": 0 for d in range(nres)} | {"k0": 0}
    sh = "x".join(str(s) for s in idx_shapes)
    return JobOut(obs=[FnOb(f"advanced_index/{pattern}/{sh}", params, body, pre, [smp], timeout=600,
                            unbounded=tuple(unb), replay=_generic_numeric(np_build),
                            info={"node": "AdvancedIndex(contiguous|non-contiguous)", "pattern": pattern,
                                  "index_array_shapes": [list(s) for s in idx_shapes],
                                  "index values": "uninterpreted (all values; negative entries via documented mod)"})])


# ---------------------------------------------------------------------------
# Einsum

_EINSUMS = [
    # several summation indices that first appear in different operands (each needs its own reduction variable)
    ("ij,kl->ik", 2), ("i,j->", 2), ("i,jk->k", 2),
    ("ij,jk->ik", 2), ("ij,kj->ik", 2), ("ii->i", 1), ("ij->ji", 1), ("ij->", 1), ("i,i->", 2), ("i,j->ij", 2),
    ("ij,j->i", 2), ("ijk,kj->i", 2), ("ij,ij->ij", 2), ("ij,ij,ij->i", 3), ("im,mj,km->ijk", 3), ("iij->j", 1),
    ("ij,ji->", 2), ("i->i", 1), ("ij,jk,kl->il", 3), ("ij,jk,kl,lm->im", 4),
]


def einsum(spec: str, bcast: int, maxlen: int = 3) -> JobOut:
    """bcast: bitmask over (operand, axis) positions forced to length 1 (broadcast-unit axes)"""
    import pytato as pt
    from pv.chfix import notrace_hash
    pass
    ins, out = spec.split("->")
    ins = ins.split(",")
    letters = sorted(set("".join(ins)))
    names = [f"a{j}" for j in range(len(ins))]
    alg, xp = term_xp({n: "f" for n in names})
    params = [(f"n_{c}", "int") for c in letters] + idx_params(len(out)) + sk_params(len(letters) + 1)
    positions = [(j, k) for j, sub in enumerate(ins) for k in range(len(sub))]
    unit = {pos for b, pos in enumerate(positions) if bcast >> b & 1}

    def pre(**p):
        return all(0 <= p[f"n_{c}"] <= maxlen for c in letters)

    def shapes(p):
        return [tuple(1 if (j, k) in unit else p[f"n_{c}"] for k, c in enumerate(sub))
                for j, sub in enumerate(ins)]

    def body(ob, **p):
        shps = shapes(p)
        try:
            ref = xp.einsum(spec, *[xp.input(n, s, F64) for n, s in zip(names, shps)])
        except ValueError:
            ref = None
        try:
            node = pt.einsum(spec, *[pt.make_placeholder(n, s, F64) for n, s in zip(names, shps)])
        except refusal_types():
            return True
        if ref is None:
            return True
        return _finish(ob, node, ref, p, len(out), len(letters) + 1, alg)

    def np_build(args):
        shps = shapes(args)
        data = {n: _distinct(s, base=3.0 * j) for j, (n, s) in enumerate(zip(names, shps))}
        node = pt.einsum(spec, *[pt.make_placeholder(n, s, F64) for n, s in zip(names, shps)])
        return node, np.einsum(spec, *[data[n] for n in names]), data

    smp = {f"n_{c}": min(2, maxlen) for c in letters} | {f"i{d}": 0 for d in range(len(out))} \
        | {f"k{d}": 1 for d in range(len(letters) + 1)}
    return JobOut(obs=[FnOb(f"einsum/{spec}/b{bcast}", params, body, pre, [smp], timeout=300,
                            replay=_generic_numeric(np_build),
                            info={"node": "Einsum", "spec": spec, "unit_axes": sorted(unit),
                                  "axis lengths": f"0..{maxlen} symbolic per index letter",
                                  "reduction": "lock-step with Skolem index"})])


# ---------------------------------------------------------------------------
# CSRMatmul

def csr_matmul(arr_nd: int, maxlen: int = 4) -> JobOut:
    import pytato as pt
    alg, xp = term_xp({"ev": "f", "ci": "i", "rs": "i", "x": "f"})
    params = [("nrow", "int"), ("ncol", "int"), ("nnz", "int")] + [(f"n{d}", "int") for d in range(1, arr_nd)] \
        + idx_params(arr_nd) + sk_params(2)

    def pre(**p):
        return (1 <= p["nrow"] <= maxlen and 1 <= p["ncol"] <= maxlen and 0 <= p["nnz"] <= maxlen * 2
                and all(0 <= p[f"n{d}"] <= maxlen for d in range(1, arr_nd)))

    def mk(p):
        ev = pt.make_placeholder("ev", (p["nnz"],), F64)
        ci = pt.make_placeholder("ci", (p["nnz"],), np.int32)
        rs = pt.make_placeholder("rs", (p["nrow"] + 1,), np.int32)
        x = pt.make_placeholder("x", (p["ncol"], *[p[f"n{d}"] for d in range(1, arr_nd)]), F64)
        m = pt.make_csr_matrix((p["nrow"], p["ncol"]), ev, ci, rs)
        return m @ x

    def body(ob, **p):
        from pytato.transform.lower_to_index_lambda import to_index_lambda
        try:
            node = mk(p)
        except refusal_types():
            return True
        il = to_index_lambda(node)
        want_shape = (p["nrow"], *[p[f"n{d}"] for d in range(1, arr_nd)])
        if len(il.shape) != arr_nd or any(a != b for a, b in zip(il.shape, want_shape)) \
                or il.shape != node.shape or il.dtype != node.dtype or node.dtype != F64 \
                or il.axes != node.axes or il.tags != node.tags:
            return False
        idx = take(p, "i", arr_nd)
        if not in_range(idx, want_shape):
            return True
        ob.reach()
        # reference: y[i, rest] = sum_{k in [rs[i], rs[i+1])} ev[k] * x[ci[k], rest]
        i = idx[0]

        def body_k(rs):
            k, = rs
            return alg.op("mul", alg.read("ev", (k,)), alg.read("x", (alg.read("ci", (k,)), *idx[1:])))
        want = alg.reduce("sum", [(alg.read("rs", (i,)), alg.read("rs", (i + 1,)))], body_k)
        got = PtEval(alg).at(il, idx)
        return teq(got, want, Skolems(take(p, "k", 2)))

    def np_build(args):
        import scipy.sparse as sp
        rng = np.random.default_rng(3)
        nrow, ncol, nnz = args["nrow"], args["ncol"], args["nnz"]
        rs = np.sort(rng.integers(0, nnz + 1, nrow + 1)).astype(np.int32)
        rs[0], rs[-1] = 0, nnz
        ci = rng.integers(0, ncol, nnz).astype(np.int32)
        ev = _distinct((nnz,))
        x = _distinct((ncol, *[args[f"n{d}"] for d in range(1, arr_nd)]), base=50.0)
        dense = np.zeros((nrow, ncol))
        for r in range(nrow):
            for k in range(rs[r], rs[r + 1]):
                dense[r, ci[k]] += ev[k]
        del sp
        return mk(args), dense @ x, {"ev": ev, "ci": ci, "rs": rs, "x": x}

    smp = {"nrow": 2, "ncol": 3, "nnz": 4} | {f"n{d}": 2 for d in range(1, arr_nd)} \
        | {f"i{d}": 0 for d in range(arr_nd)} | {"k0": 1, "k1": 0}
    return JobOut(obs=[FnOb(f"csr_matmul/nd{arr_nd}", params, body, pre, [smp], timeout=180,
                            replay=_generic_numeric(np_build),
                            info={"node": "CSRMatmul", "operand axes": arr_nd,
                                  "bounds": "data-dependent (row_starts), compared in lock step"})])


# ---------------------------------------------------------------------------

def jobs(tier: str, seed: int):
    J = []

    def add(factory, **kw):
        jid = factory + "/" + "/".join(f"{k}={v}" for k, v in kw.items())
        J.append(Job(MOD, factory, kw, jid=jid, hard_timeout=3600 if tier == "thorough" else 700))

    thorough = tier == "thorough"
    L = 5 if thorough else 4
    for nd in (1, 2, 3) + ((4,) if thorough else ()):
        for ax in range(nd):
            add("roll", ndim=nd, axis=ax, maxlen=5)
    for nd in (1, 2, 3) + ((4,) if thorough else ()):
        add("axis_permutation", ndim=nd, maxlen=L)
    pairs = [(0, 1), (1, 0), (0, 2), (1, 1), (1, 2), (2, 1), (2, 2), (1, 3), (3, 1), (2, 3), (3, 2)]
    if thorough:
        pairs += [(3, 3), (2, 0), (0, 3), (1, 4), (4, 2), (2, 4)]      # ((4,1) at lengths <= 5 did not finish: outside)
    for o, n in pairs:
        for order in ("C", "F"):
            add("reshape", old_nd=o, new_nd=n, order=order, maxlen=(3 if o + n >= 5 else 4) if not thorough else (4 if o + n >= 6 else 5))
    for o, n in [(2, 1), (1, 2)] + ([(2, 2), (3, 1)] if thorough else []):
        for order in ("c", "f"):          # NumPy (and pytato's validation) accept lower-case spellings
            add("reshape", old_nd=o, new_nd=n, order=order, maxlen=3)
    for o, n in [(2, 1), (1, 2), (2, 2)]:      # (with -1 inference, 5 axes in total do not finish within budget: outside)
        add("reshape", old_nd=o, new_nd=n, order="C", maxlen=4 if thorough else 3, infer=True)
        add("reshape", old_nd=o, new_nd=n, order="F", maxlen=4 if thorough else 3, infer=True)
    if thorough:
        # (two unbounded slices multiply their path counts: ~10^4 paths already for lengths <= 2)
        pats = [("i", 5, 4), ("s", 6, 4), ("is", 4, 2), ("si", 4, 2), ("se", 4, 3), ("ie", 5, 3),
                ("ii", 5, 1), ("see", 3, 2)]      # ("ss", "sis", "sie": two unbounded slices / slice+int+ellipsis did not finish: outside)
    else:
        # (axes are processed independently by the code under test: the deep domains are on the
        #  single-axis patterns, multi-axis patterns use small ones -- paths multiply)
        pats = [("i", 5, 3), ("s", 5, 3), ("is", 3, 1), ("si", 3, 1), ("se", 3, 2), ("ie", 4, 2)]
    for pat, ml, ms in pats:
        add("basic_index", kinds=pat, maxlen=ml, maxstep=ms)
    for nd, narr in [(1, 1), (1, 2), (2, 2), (2, 3), (0, 2)] + ([(3, 2), (2, 4)] if thorough else []):
        for ax in range(-(nd + 1), nd + 1) if thorough else range(nd + 1):
            add("stack", ndim=nd, narr=narr, axis=ax, maxlen=L)
    for nd, narr in [(1, 1), (1, 2), (1, 3), (2, 2), (2, 3)] + ([(3, 2), (3, 3), (2, 4)] if thorough else []):
        for ax in range(nd):            # (pytato documents non-negative axes only)
            add("concatenate", ndim=nd, narr=narr, axis=ax, maxlen=L)
    adv = [("A", (1,)), ("A", (3,)), ("A:", (1,)), (":A", (1,)), ("AA", (1, 1)), ("AA", (3, 4)), ("A:A", (1, 1)),
           ("Ai", (1,)), ("iA", (1,)), ("A:i", (1,)), ("sA", (1,)), ("As", (1,)), ("AsA", (1, 2)), (":A:", (3,)),
           ("A", (0,)), ("Ai:", (1,)), (":Ai:", (1,)), ("AAi:", (1, 1)), (":A:A", (1, 1)), (":A:i", (1,)), ("iA:", (1,))]
    if thorough:
        # ("Ais", "sAs", "iAs", "Asi": an unbounded slice next to an int or a second slice did not finish: outside)
        adv += [("AAA", (1, 2, 1)), ("A:A", (3, 5)), ("A::", (1,)),
                ("::A", (4,)), ("AA:", (1, 5)), (":AA", (5, 1)), ("i:A", (1,)), ("isA", (1,)), ("AiA", (1, 1))]
    # the whole family of index tuples over {index array, full slice, int}: every pattern of length <= 3 (quick) /
    # <= 4 (thorough) with at least one index array (contiguous and non-contiguous groups, any position of ints)
    import itertools as _it
    have = {p_ for p_, _ in adv}
    for ln in (1, 2, 3) + ((4,) if thorough else ()):
        for tup in _it.product("A:i", repeat=ln):
            pat = "".join(tup)
            if "A" in pat and pat not in have:
                adv.append((pat, (1,) * pat.count("A")))
    for pat, sel in adv:
        if thorough:
            add("advanced_index", pattern=pat, shp_sel=sel, maxlen=4 if len(pat) < 3 else 3,
                maxstep=2 if pat.count("s") < 2 else 1)
        else:
            # (an unbounded symbolic slice next to an index array costs 100-500 s at length 3)
            add("advanced_index", pattern=pat, shp_sel=sel, maxlen=2 if "s" in pat else 3,
                maxstep=1 if "s" in pat else 2)
    for spec, nops in _EINSUMS if thorough else _EINSUMS[:15]:
        # (axis lengths are symbolic: four or more index letters multiply the paths -- lengths <= 2 there)
        add("einsum", spec=spec, bcast=0, maxlen=3 if len(set(spec) - set(",->")) <= 3 else (2 if nops < 4 else 1))
    for spec, b in [("ij,jk->ik", 1), ("ij,jk->ik", 2), ("ij,jk->ik", 8), ("ij,ij->ij", 1), ("ij,ij->ij", 6),
                    ("ij,j->i", 2), ("ij,j->i", 4)]:
        add("einsum", spec=spec, bcast=b, maxlen=3)
    for nd in (1, 2) + ((3,) if thorough else ()):
        add("csr_matmul", arr_nd=nd, maxlen=4)

    meta = {
        "programs": len(J),
        "explanation": "Bounded symbolic verification of the real lowering rules: CrossHair executes pytato's "
                       "public constructors, argument validation/normalisation and to_index_lambda on symbolic "
                       "node parameters; the resulting IndexLambda.expr is evaluated at a symbolic index over "
                       "uninterpreted input arrays and compared (z3 decides every branch) with NumPy's documented "
                       "index mapping. 'Confirmed over all paths' = holds for every parameter value in the stated "
                       "domain, every index and every input array.",
        "bounds": {"node kinds": "Roll, AxisPermutation, Reshape(C,F,-1), BasicIndex, Stack, Concatenate, "
                                 "AdvancedIndex contiguous/non-contiguous, Einsum, CSRMatmul (enumerated)",
                   "ndim": "<= 3 quick / <= 4 thorough (enumerated)",
                   "axis lengths": "symbolic 0..3/4/5 per harness (stated in each obligation)",
                   "roll shift, slice start/stop, int indices": "unbounded integers",
                   "slice step": "+-1..+-3 (quick) / +-4 (thorough), None",
                   "index-array shapes, einsum specs, index patterns": "menus (enumerated)"},
        "outside": ["dtype-specific behaviour (inputs float64/int64 only; width-only casts not modelled)",
                    "axis lengths above the stated bound", "ndim > 4", "symbolic (SizeParam) shapes -> C16",
                    "combinations that did not finish within budget in the end-to-end thorough run (two unbounded slices "
                    "in one index; an unbounded slice next to an int and an index array; reshape with -1 inference over 5 "
                    "axes; reshape 4 -> 1 axes at lengths <= 5) -- left out, see the comments in pv/props/c02.py"],
        "assumptions": ["out-of-range data-dependent indices are undefined behaviour as documented; in-range "
                        "negative entries follow the documented mod normalisation"],
    }
    return J, meta
