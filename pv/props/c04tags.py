"""Module-level (hence picklable) tags used by the C04/C05/C07 harnesses."""
import dataclasses

from pytools.tag import Tag, UniqueTag


@dataclasses.dataclass(frozen=True)
class FooTag(Tag):
    pass


@dataclasses.dataclass(frozen=True)
class BarTag(Tag):
    pass


@dataclasses.dataclass(frozen=True)
class BazAxisTag(UniqueTag):
    pass
