"""C19 -- raising an index lambda to a high-level operation never misreads it.

The real ``index_lambda_to_high_level_op`` runs concretely on every index
lambda of a list built through the public API plus hand-built near-misses.
If it returns a high-level op, that op is applied with NumPy's semantics
(``symnp``) to the operands it identified and compared, at a symbolic index
over uninterpreted inputs (CrossHair/z3), with the pointwise meaning of the
index lambda itself (``eval_il``).
"""
from __future__ import annotations

import itertools

import numpy as np

from pv.drive import Job, JobOut, Side
from pv.props.tcommon import value_obs
from pv.sem.ptsem import PtEval
from pv.sem.symnp import LArr, SymNP

LEVEL = "translation_validation"
MOD = "pv.props.c19"
F64, I32, B, C128 = np.float64, np.int32, np.bool_, np.complex128


def _inputs():
    import pytato as pt
    return {"x": pt.make_placeholder("x", (3, 4), F64), "y": pt.make_placeholder("y", (4,), F64),
            "m": pt.make_placeholder("m", (3, 4), I32), "n": pt.make_placeholder("n", (3, 1), I32),
            "p": pt.make_placeholder("p", (3, 4), B), "q": pt.make_placeholder("q", (4,), B),
            "z": pt.make_placeholder("z", (4,), C128), "s": pt.make_placeholder("s", (), F64),
            "t": pt.make_placeholder("t", (2, 3, 4), F64), "sq": pt.make_placeholder("sq", (3, 3), F64),
            "t2": pt.make_placeholder("t2", (2, 3, 3), F64), "u1": pt.make_placeholder("u1", (3, 1), F64),
            "u2": pt.make_placeholder("u2", (1, 4), F64), "u3": pt.make_placeholder("u3", (1,), F64)}


def api_lambdas():
    """name -> IndexLambda built by the public API (must be recognised)"""
    import pytato as pt
    I = _inputs()
    x, y, m, n, p, q, z, s, t = (I[k] for k in "x y m n p q z s t".split())
    out = {}
    ops = {"add": lambda a, b: a + b, "sub": lambda a, b: a - b, "mul": lambda a, b: a * b,
           "truediv": lambda a, b: a / b, "floordiv": lambda a, b: a // b, "mod": lambda a, b: a % b,
           "pow": lambda a, b: a ** b}
    for on, f in ops.items():
        out[f"{on}/aa"] = f(x, y)
        out[f"{on}/as"] = f(x, 2.5)
        out[f"{on}/sa"] = f(2.5, x)
        out[f"{on}/ai"] = f(x, m)
        out[f"{on}/ia"] = f(n, x)
        out[f"{on}/a0"] = f(x, s)
        out[f"{on}/0a"] = f(s, y)
        out[f"{on}/ii"] = f(m, 3)
        out[f"{on}/ii2"] = f(7, m)
    for on, f in {"and": lambda a, b: a & b, "or": lambda a, b: a | b, "xor": lambda a, b: a ^ b}.items():
        out[f"bit{on}/aa"] = f(m, n)
        out[f"bit{on}/as"] = f(m, 5)
        out[f"bit{on}/sa"] = f(5, m)
    for cn in ["less", "less_equal", "greater", "greater_equal", "equal", "not_equal"]:
        f = getattr(pt, cn)
        out[f"{cn}/aa"] = f(x, y)
        out[f"{cn}/as"] = f(x, 0.5)
        out[f"{cn}/sa"] = f(0.5, x)
        out[f"{cn}/ai"] = f(x, n)
    for ln in ["logical_and", "logical_or"]:
        f = getattr(pt, ln)
        out[f"{ln}/aa"] = f(p, q)
        out[f"{ln}/as"] = f(p, True)
        out[f"{ln}/sa"] = f(False, q)
    out["logical_not/a"] = pt.logical_not(p)
    out["logical_not/f"] = pt.logical_not(x)
    out["where/aaa"] = pt.where(p, x, y)
    out["where/asa"] = pt.where(p, 1.5, y)
    out["where/aas"] = pt.where(q, y, 0.0)
    out["where/ass"] = pt.where(p, 1.0, 2.0)
    # conditions that are not Boolean (any dtype is a legal truth value)
    out["where/fcond"], out["where/icond"], out["where/ccond"] = pt.where(x, y, 2.0), pt.where(m, x, y), pt.where(z, y, 0.5)
    for fn in ["sin", "cos", "tan", "arcsin", "arccos", "arctan", "sinh", "cosh", "tanh", "exp", "log", "log10", "sqrt",
               "abs", "isnan"]:
        out[f"{fn}/a"] = getattr(pt, fn)(x)
    out["arctan2/aa"] = pt.arctan2(x, x * 2)
    out["real/z"], out["imag/z"], out["conj/z"], out["abs/z"] = pt.real(z), pt.imag(z), pt.conj(z), pt.abs(z)
    for rn in ["sum", "amax", "amin", "prod"]:
        f = getattr(pt, rn)
        for r in range(0, 4):
            for axes in itertools.combinations(range(3), r):
                if r == 0:
                    continue
                out[f"{rn}/t{''.join(map(str, axes))}"] = f(t, axis=axes)
        out[f"{rn}/all"] = f(x)
    out["all/p1"], out["any/p"] = pt.all(p, axis=1), pt.any(p)
    out["full/f"], out["full/i"], out["zeros"], out["ones"] = pt.full((2, 3), 7.5), pt.full((3,), 2, dtype=I32), \
        pt.zeros((2, 2)), pt.ones((4,), dtype=I32)
    out["broadcast_to/y"] = pt.broadcast_to(y, (3, 4))
    out["broadcast_to/n"] = pt.broadcast_to(n, (2, 3, 5))
    out["broadcast_to/s"] = pt.broadcast_to(s, (2, 2))
    # NumPy-typed scalar operands whose dtype is not the result dtype (wrapped in a cast by the front end)
    k64 = pt.make_placeholder("k64", (3, 4), np.int64)
    I["k64"] = k64
    out["npscalar/f64+f32"], out["npscalar/f32*f64"] = x + np.float32(2.5), np.float32(0.5) * x
    out["npscalar/f64*i64"], out["npscalar/i64+i32"] = x * np.int64(3), k64 + np.int32(5)
    out["npscalar/i32-i64"], out["npscalar/f64/i32"] = np.int32(7) - k64, x / np.int32(2)
    out["npscalar/less"], out["npscalar/pow"] = pt.less(x, np.float32(0.5)), x ** np.int64(2)
    # extreme NumPy-typed constants (their negation overflows in their own type)
    out["npscalar/i64+i8min"], out["npscalar/f64+i16min"] = k64 + np.int8(-128), x + np.int16(-32768)
    out["npscalar/i64-i8min"], out["npscalar/i64*i8min"] = k64 - np.int8(-128), k64 * np.int8(-128)
    out["npscalar/i32min+i64"] = np.int32(-2147483648) + k64
    out["astype/i2f"] = m.astype(F64)
    out["astype/f2c"] = x.astype(C128)
    out["zeros_like"] = pt.zeros_like(x)
    out["neg"] = -x
    # operands with length-1 axes (recognition must not depend on the axis lengths)
    for nm in ("u1", "u2", "u3"):
        u = I[nm]
        out[f"unit/{nm}/neg"], out[f"unit/{nm}/sin"], out[f"unit/{nm}/abs"] = -u, pt.sin(u), pt.abs(u)
        out[f"unit/{nm}/isnan"], out[f"unit/{nm}/astype"], out[f"unit/{nm}/zeros_like"] = pt.isnan(u), u.astype(np.float32), \
            pt.zeros_like(u)
        out[f"unit/{nm}/exp"], out[f"unit/{nm}/add"], out[f"unit/{nm}/where"] = pt.exp(u), u + 1, pt.where(pt.less(u, 0), u, 0.0)
        out[f"unit/{nm}/sum"], out[f"unit/{nm}/maximum"] = pt.sum(u), pt.maximum(u, 0.5)
    out["unit/arctan2"] = pt.arctan2(I["u1"], I["u1"] * 2)
    # 0-d operands
    s0 = I["s"]
    for fn in ("sin", "exp", "sqrt", "abs", "isnan", "tanh", "log"):
        out[f"zerod/{fn}"] = getattr(pt, fn)(s0)
    out["zerod/neg"], out["zerod/astype"], out["zerod/zeros_like"], out["zerod/ones_like"] = -s0, s0.astype(np.float32), \
        pt.zeros_like(s0), pt.ones_like(s0)
    out["zerod/arctan2"], out["zerod/norm"], out["zerod/where"] = pt.arctan2(s0, s0 + 1), pt.sqrt(pt.sum(x * x)), \
        pt.where(pt.less(s0, 0), s0, 1.0)
    out["zerod/maximum"] = pt.maximum(s0, 0.5)
    zc = pt.make_placeholder("zc", (), C128)
    I["zc"] = zc
    out["zerod/real"], out["zerod/conj"], out["zerod/absc"] = pt.real(zc), pt.conj(zc), pt.abs(zc)
    return I, out


def near_misses():
    """hand-built index lambdas that must be 'unknown' or read correctly"""
    import pytato as pt
    I = _inputs()
    x, y, sq, t, t2 = I["x"], I["y"], I["sq"], I["t"], I["t2"]
    import pymbolic.primitives as p
    from pytato.scalar_expr import parse

    def mk(e, bindings, shape, dtype):
        return pt.array.make_index_lambda(parse(e) if isinstance(e, str) else e, bindings, shape, dtype)
    v = p.Variable

    def raw(e, bindings, shape):
        from constantdict import constantdict
        return pt.array.IndexLambda(expr=e, shape=shape, dtype=np.dtype(F64), bindings=constantdict(bindings),
                                    axes=pt.array._get_default_axes(len(shape)), tags=frozenset(),
                                    non_equality_tags=frozenset(), var_to_reduction_descr=constantdict())
    out = {
        "permuted": mk("_in0[_1, _0]", {"_in0": sq}, (3, 3), F64),
        "offset": mk("_in0[(_0 + 1) % 3, _1]", {"_in0": x}, (3, 4), F64),
        "scaled_idx": mk("_in0[_0, 2*_1]", {"_in0": x}, (3, 2), F64),
        "sum3": mk("_in0[_0, _1] + _in1[_1] + _in0[_0, _1]", {"_in0": x, "_in1": y}, (3, 4), F64),
        "prod3": mk("_in0[_0, _1] * _in1[_1] * 2", {"_in0": x, "_in1": y}, (3, 4), F64),
        "permuted_binop": mk("_in0[_1, _0] + _in1[_0, _1]", {"_in0": sq, "_in1": sq}, (3, 3), F64),
        "swapped_bcast": mk("_in0[_0] + _in1[_0, _1]", {"_in0": pt.make_placeholder("c3", (3,), F64), "_in1": sq},
                            (3, 3), F64),
        "diag": mk("_in0[_0, _0]", {"_in0": sq}, (3,), F64),
        "const_idx": mk("_in0[0, _1]", {"_in0": x}, (3, 4), F64),
        "where_perm": mk(p.If(p.Comparison(v("_in1")[v("_0"), v("_1")], ">", 0), v("_in0")[v("_1"), v("_0")], 0),
                         {"_in0": sq, "_in1": sq}, (3, 3), F64),
        "call_perm": raw(p.Call(v("pytato.c99.sin"), (v("_in0")[v("_1"), v("_0")],)), {"_in0": sq}, (3, 3)),
        "neg_scaled": mk("_in0[_0, _1] + (-2)*_in1[_1]", {"_in0": x, "_in1": y}, (3, 4), F64),
        "sub_rev": mk("(-1)*_in0[_0, _1] + _in1[_1]", {"_in0": x, "_in1": y}, (3, 4), F64),
    }
    from constantdict import constantdict
    from pytato.reductions import SumReductionOperation
    from pytato.scalar_expr import Reduce
    var = p.Variable

    def red(sub, bounds, bnd, shape):
        return pt.array.IndexLambda(
            expr=Reduce(var("_in0")[sub], SumReductionOperation(), constantdict(bounds)), shape=shape, dtype=np.dtype(F64),
            bindings=constantdict({"_in0": bnd}), axes=pt.array._get_default_axes(len(shape)), tags=frozenset(),
            non_equality_tags=frozenset(),
            var_to_reduction_descr=constantdict({k: pt.array.ReductionDescriptor(frozenset()) for k in bounds}))
    out["reduce_lb1"] = red((var("_0"), var("_r0")), {"_r0": (1, 4)}, x, (3,))
    out["reduce_partial"] = red((var("_0"), var("_r0")), {"_r0": (0, 3)}, x, (3,))
    out["reduce_perm"] = red((var("_r0"), var("_0")), {"_r0": (0, 3)}, sq, (3,))
    out["reduce_diag"] = red((var("_r0"), var("_r0")), {"_r0": (0, 3)}, sq, ())
    out["reduce_out_perm"] = red((var("_1"), var("_r0"), var("_0")), {"_r0": (0, 3)}, t, (4, 2))
    # permuted free axes of *equal* length (shape alone cannot tell them apart)
    out["reduce_out_perm_eq"] = red((var("_r0"), var("_1"), var("_0")), {"_r0": (0, 2)}, t2, (3, 3))
    out["reduce_out_perm_eq2"] = red((var("_1"), var("_0"), var("_r0")), {"_r0": (0, 3)}, pt.make_placeholder("t3", (3, 3, 3), F64), (3, 3))
    out["einsum_kj"] = pt.transform.lower_to_index_lambda.to_index_lambda(pt.einsum("ijk->kj", t2))
    # hand-built / lowered lambdas on which the raiser used to fail with something other than "unknown"
    out["flat_sum3"] = raw(p.Sum((var("a")[var("_0"), var("_1")], var("b")[var("_0"), var("_1")], var("c")[var("_0"), var("_1")])),
                           {"a": x, "b": x, "c": x}, (3, 4))
    out["flat_prod3"] = raw(p.Product((var("a")[var("_0"), var("_1")], var("b")[var("_1")], 2.0)), {"a": x, "b": y}, (3, 4))
    out["plus_iname"] = raw(var("a")[var("_0"), var("_1")] + var("_0"), {"a": x}, (3, 4))
    out["outer"] = pt.transform.lower_to_index_lambda.to_index_lambda(pt.einsum("i,j->ij", y, x[:, 0]))
    out["concat3"] = pt.transform.lower_to_index_lambda.to_index_lambda(pt.concatenate([x, x[:2], x], axis=0))
    out["reduce_extra_axis"] = red((var("_0"), var("_r0")), {"_r0": (0, 4)}, x, (3, 2))
    # a value-changing cast inside / around a full-axis reduction: not the plain reduction of the operand
    from pytato.scalar_expr import TypeCast

    def redx(expr, bounds, bnd, shape, dtype):
        return pt.array.IndexLambda(
            expr=expr, shape=shape, dtype=np.dtype(dtype), bindings=constantdict({"_in0": bnd}),
            axes=pt.array._get_default_axes(len(shape)), tags=frozenset(), non_equality_tags=frozenset(),
            var_to_reduction_descr=constantdict({k: pt.array.ReductionDescriptor(frozenset()) for k in bounds}))
    out["reduce_cast_inner"] = redx(Reduce(TypeCast(np.dtype(np.int64), var("_in0")[var("_0"), var("_r0")]), SumReductionOperation(),
                                           constantdict({"_r0": (0, 4)})), {"_r0": (0, 4)}, x, (3,), np.int64)
    out["reduce_cast_outer"] = redx(TypeCast(np.dtype(np.int64), Reduce(var("_in0")[var("_0"), var("_r0")], SumReductionOperation(),
                                                                       constantdict({"_r0": (0, 4)}))), {"_r0": (0, 4)}, x, (3,), np.int64)
    # x - y*z written as a flat product with a leading -1: not x - y
    ij = (var("_0"), var("_1"))
    out["sub_flat3"] = raw(p.Sum((var("a")[ij], p.Product((-1, var("b")[ij], var("c")[ij])))), {"a": x, "b": x, "c": x}, (3, 4))
    out["sub_flat3s"] = raw(p.Sum((var("a")[ij], p.Product((-1, var("b")[ij], 2.0)))), {"a": x, "b": x}, (3, 4))
    out["sub_flat3b"] = raw(p.Sum((var("a")[ij], p.Product((-1, var("b")[(var("_1"),)], var("c")[ij])))), {"a": x, "b": y, "c": x}, (3, 4))
    # a bare index variable (no operand at all)
    out["bare_iname"] = raw(var("_0"), {}, (3,))
    out["bare_iname2"] = raw(var("_1") + 0, {}, (3, 4))
    # a reduction variable the summand never uses: 5 * x[_0, _1], not x
    out["reduce_unused_var"] = red((var("_0"), var("_1")), {"_r0": (0, 5)}, x, (3, 4))
    out["reduce_unused_var2"] = red((var("_0"), var("_r0")), {"_r0": (0, 4), "_r1": (0, 2)}, x, (3,))
    out["reduce_npint_shape"] = pt.sum(pt.make_placeholder("xi", (np.int64(3), np.int64(4)), F64), axis=1)
    out["full_nan"] = pt.full((2, 3), np.nan)
    return I, out


def _apply_hlo(xp, hlo, operand):
    """apply the recognised operation with NumPy semantics; operand(a) turns an
    identified pytato operand (Array or scalar) into a symnp operand"""
    from pytato import raising as R
    T = R.BinaryOpType
    if isinstance(hlo, R.FullOp):
        return ("full", hlo.fill_value)
    if isinstance(hlo, R.BinaryOp):
        a, b = operand(hlo.x1), operand(hlo.x2)
        f = {T.ADD: xp.add, T.SUB: xp.subtract, T.MULT: xp.multiply, T.TRUEDIV: xp.divide, T.FLOORDIV: xp.floor_divide,
             T.MOD: xp.mod, T.POWER: xp.power, T.LOGICAL_OR: xp.logical_or, T.LOGICAL_AND: xp.logical_and,
             T.BITWISE_OR: xp.bitwise_or, T.BITWISE_AND: xp.bitwise_and, T.BITWISE_XOR: xp.bitwise_xor,
             T.LESS: xp.less, T.LESS_EQUAL: xp.less_equal, T.GREATER: xp.greater, T.GREATER_EQUAL: xp.greater_equal,
             T.EQUAL: xp.equal, T.NOT_EQUAL: xp.not_equal}[hlo.binary_op]
        return f(a, b)
    if isinstance(hlo, R.C99CallOp):
        name = {"asin": "arcsin", "acos": "arccos", "atan": "arctan", "atan2": "arctan2"}.get(hlo.function, hlo.function)
        return getattr(xp, name)(*[operand(a) for a in hlo.args])
    if isinstance(hlo, R.ZerosLikeOp):
        return xp.zeros_like(operand(hlo.x))
    if isinstance(hlo, R.WhereOp):
        return xp.where(operand(hlo.condition), operand(hlo.then), operand(hlo.else_))
    if isinstance(hlo, R.BroadcastOp):
        return ("broadcast", operand(hlo.x))
    if isinstance(hlo, R.LogicalNotOp):
        return xp.logical_not(operand(hlo.x))
    if isinstance(hlo, R.ReduceOp):
        from pv.sem.ilsem import redop_name
        fn = {"sum": xp.sum, "product": xp.prod, "max": xp.max, "min": xp.min, "all": xp.all, "any": xp.any}[
            redop_name(hlo.op)]
        return fn(operand(hlo.x), axis=tuple(sorted(hlo.axes)))
    raise AssertionError(type(hlo))


def raise_job(which: str, names: tuple) -> JobOut:
    from pv import corpus as C
    I, lams = api_lambdas() if which == "api" else near_misses()
    kinds = {k: __import__("pv.sem.alg", fromlist=["x"]).dtype_kind(v.dtype) for k, v in I.items()} | {"c3": "f", "t3": "f"}
    data = {k: C.default_data(k, tuple(v.shape), v.dtype) for k, v in I.items()}
    data["c3"] = C.default_data("c3", (3,), F64)
    data["t3"] = C.default_data("t3", (3, 3, 3), F64)
    return _raise(which, lams, names, kinds, data)


def gen_raise_job(prog: str, seed: int = 0) -> JobOut:
    """every node of a generated program, lowered to an index lambda by the real lowering, goes through the raiser:
    it may be reported as unknown, but whatever is recognised must reproduce the lambda"""
    import pytato as pt
    from pytato.transform import TopoSortMapper
    from pytato.transform.lower_to_index_lambda import to_index_lambda
    from pv import corpus as C
    P = {p.name: p for p in C.corpus("thorough", seed)}[prog]
    data = {n: C.default_data(n, shp, dt, P) for n, shp, dt, _ in P.inputs}
    try:
        outs, ins = C.build_pytato(P, data)
    except Exception as e:  # noqa: BLE001
        return JobOut(declined=f"program not constructible: {type(e).__name__}: {e}")
    m = TopoSortMapper()
    m(pt.transform.deduplicate(pt.make_dict_of_named_arrays(outs)))
    lams = {}
    for k, n in enumerate(m.topological_order):
        if not isinstance(n, pt.Array) or isinstance(n, (pt.array.InputArgumentBase, pt.array.NamedArray)):
            continue
        try:
            il = n if isinstance(n, pt.IndexLambda) else to_index_lambda(n)
        except Exception:  # noqa: BLE001
            continue            # (lowering is C02's subject)
        lams[f"{prog}/{k}:{type(n).__name__}"] = il
    kinds = C.kinds_of(P)
    return _raise("gen", lams, tuple(lams), kinds, data)


def _raise(which, lams, names, kinds, data) -> JobOut:
    from pytato.raising import index_lambda_to_high_level_op
    from pytato.diagnostic import UnknownIndexLambdaExpr
    sides, outputs = [], {}
    for nm in names:
        il = lams[nm]
        try:
            hlo = index_lambda_to_high_level_op(il)
        except UnknownIndexLambdaExpr:
            # (a cast has no high-level operation of its own: astype() is legitimately unknown)
            sides.append(Side(f"{which}/{nm}/recognised", which != "api" or "astype" in nm, "reported as unknown"))
            continue
        except Exception as e:  # noqa: BLE001
            sides.append(Side(f"{which}/{nm}/no-crash", False, f"{type(e).__name__}: {e}"))
            continue

        def mk_a(alg, il=il):
            ev = PtEval(alg)
            return lambda idx: ev.at(il, idx)

        def mk_b(alg, il=il, hlo=hlo):
            xp = SymNP(alg)
            ev = PtEval(alg)

            def operand(a):
                import pytato as pt
                if isinstance(a, pt.Array):
                    return LArr(xp, tuple(a.shape), a.dtype, lambda idx, a=a: ev.at(a, idx))
                return a
            r = _apply_hlo(xp, hlo, operand)
            if isinstance(r, tuple) and r[0] == "full":
                r = xp.full(tuple(il.shape), r[1], dtype=il.dtype)
            elif isinstance(r, tuple) and r[0] == "broadcast":
                r = xp.broadcast_to(r[1], tuple(il.shape))
            if tuple(r.shape) != tuple(il.shape):
                r = xp.broadcast_to(r, tuple(il.shape))      # raises if the op's result cannot have the lambda's shape
            f = lambda idx: r.at(idx)       # noqa: E731
            f.dtype = np.dtype(r.dtype)
            return f
        try:
            fb = mk_b(__import__("pv.sem.alg", fromlist=["x"]).TermAlg(kinds))
            # the term algebra does not model widths, so a dropped width-changing cast is invisible to the value
            # obligation: the re-applied operation must also have the lambda's floating/complex dtype (integer- and
            # bool-valued results are compared by value only: pytato stores isnan/logical results as integers)
            dt_il, dt_op = np.dtype(il.dtype), fb.dtype
            from pytato.raising import ZerosLikeOp
            if (dt_il.kind in "fc" or dt_op.kind in "fc") and not isinstance(hlo, ZerosLikeOp):     # (0 is 0 in every dtype)
                sides.append(Side(f"{which}/{nm}/re-applied-operation-has-the-lambdas-dtype", dt_il == dt_op,
                                  f"{type(hlo).__name__}: lambda {dt_il}, operation applied to the identified operands {dt_op}"))
        except Exception as e:  # noqa: BLE001
            sides.append(Side(f"{which}/{nm}/applicable", False,
                              f"recognised as {type(hlo).__name__} but not applicable: {type(e).__name__}: {e}"))
            continue
        outputs[nm] = (il.shape, mk_a, mk_b)
        sides.append(Side(f"{which}/{nm}/recognised", True, type(hlo).__name__))
    obs = value_obs(f"raise/{which}", outputs, kinds, data,
                    info={"family": which, "oracle": "recognised op applied with NumPy semantics to identified operands"})
    return JobOut(obs=obs, sides=sides)


def jobs(tier: str, seed: int):
    from pv import corpus as C
    _, api = api_lambdas()
    _, nm = near_misses()
    J = []
    names = sorted(api)
    for k in range(0, len(names), 8):
        J.append(Job(MOD, "raise_job", {"which": "api", "names": tuple(names[k:k + 8])}, jid=f"api/{k}", hard_timeout=600))
    names = sorted(nm)
    for k in range(0, len(names), 6):
        J.append(Job(MOD, "raise_job", {"which": "near", "names": tuple(names[k:k + 6])}, jid=f"near/{k}", hard_timeout=600))
    gen = [p_ for p_ in C.corpus(tier, seed) if p_.name.startswith("g2_")]
    for P in gen:
        J.append(Job(MOD, "gen_raise_job", {"prog": P.name, "seed": seed}, jid=f"gen/{P.name}", hard_timeout=900))
    meta = {
        "programs": len(api) + len(nm) + len(gen),
        "explanation": "Translation validation of index_lambda_to_high_level_op: the real raiser runs on each index lambda; "
                       "a recognised operation is applied with NumPy semantics to the identified operands and compared "
                       "at a symbolic index over uninterpreted inputs with the lambda's pointwise meaning (CrossHair/z3).",
        "bounds": {"API-produced index lambdas": len(api), "hand-built near-misses": len(nm),
                   "generated programs whose every node is lowered and raised": len(gen),
                   "operand shapes": "fixed (<= 3 axes, length <= 4); inputs and indices: all"},
        "outside": ["index lambdas of other shapes than the listed ones", "integer/bool dtype of the re-applied operation (floating and complex dtypes are compared)"],
    }
    return J, meta
