"""C11 -- generated kernels are memory-safe for every admissible size.

For every kernel the real ``generate_loopy`` emits (static corpus programs,
tagged variants and programs over size parameters) every array access -- reads
and writes, inside substitution rules, under conditionals, inside reductions --
becomes one z3 query over the loop indices and size parameters:

    iteration domain  AND  params >= 0  AND  guards on the path
        ==>  0 <= subscript_k < extent_k

``unsat`` of the negation = in bounds for all loop indices and all sizes.
Subscripts that read other arrays (advanced indices, CSR) are the caller's
responsibility as documented: they are counted separately, and still checked
with the read value unconstrained (which proves the documented ``% n``
normalisation safe).
"""
from __future__ import annotations

import time

from pv import corpus as C
from pv.drive import Job, JobOut, Side, SmtOb
from pv.props.c07 import tagger
from pv.props.kcommon import generate

LEVEL = "other"
MOD = "pv.props.c11"


class AccessOb(SmtOb):
    def __init__(self, oid, model, accesses, size_params, info, xcheck_every=0):
        super().__init__()
        self.oid, self.model, self.accesses, self.size_params, self.info = oid, model, accesses, size_params, info
        self.params, self.samples = [], []
        self.xcheck_every = xcheck_every
        self.stats = {}

    def solve(self):
        from pv.sem import bounds as B
        t0 = time.time()
        n = nsafe = ndd = 0
        ts = 0.0
        unsafe, unknown = [], []
        xc = {"agree": 0, "cvc5_unknown": 0, "disagree": 0}
        for a in self.accesses:
            do_x = bool(self.xcheck_every) and n % self.xcheck_every == 0
            r = B.check(self.model, a, self.size_params, xcheck=do_x)
            if "cvc5" in r:
                xc["disagree" if "disagreement" in r else "agree" if r["cvc5"] in ("sat", "unsat") else "cvc5_unknown"] += 1
            n += 1
            ts += r["solver_s"]
            if r["status"] == "safe":
                nsafe += 1
            elif r["status"] == "data_dependent":
                ndd += 1
            elif r["status"] == "unsafe":
                unsafe.append((a, r))
            else:
                unknown.append(a)
        res = {"solver_queries": n, "solver_s": round(ts, 3), "wall_s": round(time.time() - t0, 3),
               "accesses": n, "safe": nsafe, "data_dependent_skipped": ndd}
        self.info.update({"accesses": n, "proved_in_bounds": nsafe, "data_dependent (caller's responsibility)": ndd})
        if self.xcheck_every:
            self.info["cvc5 cross-check"] = xc
            self.stats = {"cvc5_agree": xc["agree"], "cvc5_unknown": xc["cvc5_unknown"], "cvc5_disagree": xc["disagree"]}
        if unsafe:
            a, r = unsafe[0]
            res.update(status="refuted", args={"insn": a.insn, "array": a.array, "axis": a.axis, "index": str(a.index),
                                               "extent": str(a.extent), "write": a.write, "model": r["model"],
                                               "index_value": r["index_value"], "extent_value": r["extent_value"],
                                               "n_unsafe": len(unsafe)}, message="sat")
        elif unknown:
            res.update(status="inconclusive", reason=f"z3 unknown on {len(unknown)} accesses")
        else:
            res.update(status="confirmed", message=f"{nsafe} accesses proved in bounds, {ndd} data-dependent")
        return res

    def replay(self, args):
        """re-evaluate subscript and extent at the model point with plain Python
        integers (floor division / modulo as in C for non-negative divisors)"""
        import pymbolic.primitives as p
        from pymbolic.mapper.evaluator import EvaluationMapper
        acc = [a for a in self.accesses if a.insn == args["insn"] and a.array == args["array"] and a.axis == args["axis"]
               and str(a.index) == args["index"]]
        if not acc:
            return False, {"why": "access not found again"}
        a = acc[0]
        ctx = {}
        for k, v in args["model"].items():
            try:
                ctx[k] = int(v)
            except ValueError:
                pass
        # scalar temporaries used as domain parameters (reduction bounds): evaluate their definitions
        m = self.model
        for _ in range(3):
            for nm, ws in m.writers.items():
                if nm in ctx or nm not in m.temps or m.temps[nm].shape != () or len(ws) != 1:
                    continue
                try:
                    ctx[nm] = int(EvaluationMapper(ctx)(ws[0].expression))
                except Exception:  # noqa: BLE001
                    pass
        # check the point is inside the domain
        for co, is_eq in self.model.domain_constraints(a.inames):
            t = sum((v if k == 1 else v * ctx.get(k, 0)) for k, v in co.items())
            if (is_eq and t != 0) or (not is_eq and t < 0):
                return False, {"why": "model point outside the iteration domain", "constraint": str(co)}
        try:
            if a.env:
                return True, {"why": "inside a substitution rule; z3 model", **args}
            iv = EvaluationMapper(ctx)(a.index)
            ev = EvaluationMapper(ctx)(a.extent) if isinstance(a.extent, p.ExpressionNode) else int(a.extent)
        except Exception as e:  # noqa: BLE001
            return True, {"why": f"z3 model (could not re-evaluate: {type(e).__name__})", **args}
        return not (0 <= iv < ev), {"index_value": int(iv), "extent": int(ev), "point": ctx, "access": f"{a.array}[axis {a.axis}]"}


def static_job(prog: str, variant: str = "plain", seed: int = 0, xcheck: int = 0) -> JobOut:
    from pv.sem import bounds as B
    progs = {p.name: p for p in C.corpus("thorough" if prog.startswith(("gen", "g2_")) else "quick", seed)}
    P = progs[prog]
    try:
        G = generate(P, transform_dag=None if variant == "plain" else tagger(variant, seed))
    except Exception as e:  # noqa: BLE001
        return JobOut(declined=f"no kernel (C01/C07's subject): {type(e).__name__}: {e}")
    acc = B.collect(G.model)
    ob = AccessOb(f"{prog}/{variant}/accesses", G.model, acc, (), {"program": prog, "variant": variant, "sizes": "static"},
                  xcheck_every=xcheck)
    sides = []
    for name in G.model.writers:
        if name in G.model.args or (name in G.model.temps and G.model.temps[name].shape != ()):
            try:
                ok, det = B.domain_covers_shape(G.model, name)
            except Exception as e:  # noqa: BLE001
                ok, det = None, f"{type(e).__name__}: {e}"
            if ok is not None:
                sides.append(Side(f"{prog}/{variant}/domain-equals-shape/{name}", bool(ok), det))
    return JobOut(obs=[ob], sides=sides)


def sym_job(prog: str, xcheck: int = 0) -> JobOut:
    import pytato as pt
    from pv.props.c05 import _target
    from pv.sem import bounds as B
    from pv.sem.knlsem import KernelModel
    P = {p.name: p for p in C.ALL_SYM}[prog]
    try:
        outs, ins, S = C.build_sym_pytato(P)
    except Exception as e:  # noqa: BLE001
        return JobOut(declined=f"program not constructible: {type(e).__name__}: {e}")
    try:
        dag = pt.transform.deduplicate(pt.make_dict_of_named_arrays(outs))
        bp = pt.generate_loopy(dag, target=_target())
        model = KernelModel(bp.program)
    except Exception as e:  # noqa: BLE001
        return JobOut(declined=f"no kernel (C16's subject): {type(e).__name__}: {e}")
    acc = B.collect(model)
    ob = AccessOb(f"{prog}/accesses", model, acc, P.sizes, {"program": prog, "size parameters": list(P.sizes),
                                                            "sizes": "all values >= 0 (symbolic)"}, xcheck_every=xcheck)
    sides = []
    for name in model.writers:
        if name in model.args or (name in model.temps and model.temps[name].shape != ()):
            try:
                ok, det = B.domain_covers_shape(model, name, P.sizes)
            except Exception as e:  # noqa: BLE001
                ok, det = None, f"{type(e).__name__}: {e}"
            if ok is not None:
                sides.append(Side(f"{prog}/domain-equals-shape/{name}", bool(ok), det))
    return JobOut(obs=[ob], sides=sides)


def jobs(tier: str, seed: int):
    th = tier == "thorough"
    J = []
    progs = C.corpus(tier, seed)
    xc = 5 if th else 0        # thorough: every 5th query is also handed to cvc5
    for P in progs:
        J.append(Job(MOD, "static_job", {"prog": P.name, "variant": "plain", "seed": seed, "xcheck": xc}, jid=f"{P.name}/plain", hard_timeout=900))
        for v in (["all_stored", "all_subst", "alternate", "random0"] if th else ["alternate"]):
            J.append(Job(MOD, "static_job", {"prog": P.name, "variant": v, "seed": seed, "xcheck": xc}, jid=f"{P.name}/{v}", hard_timeout=900))
    for P in C.sym_corpus(tier):
        J.append(Job(MOD, "sym_job", {"prog": P.name, "xcheck": 2 if th else 0}, jid=f"{P.name}/sym", hard_timeout=900))
    meta = {
        "programs": len(progs) + len(C.sym_corpus(tier)),
        "explanation": "One z3 query per array access of every generated kernel: iteration domain (from the kernel's ISL "
                       "sets), non-negative size parameters and path guards imply 0 <= subscript < extent; unsat of the "
                       "negation holds for all loop indices and all sizes.  Writer domains are also proved equal to the "
                       "declared shapes.",
        "bounds": {"kernels": f"{len(J)} (corpus programs, tagged variants, {len(C.sym_corpus(tier))} size-parameter programs)",
                   "loop indices / size parameters": "all integers in the domain / all values >= 0"},
        "outside": ["subscripts that read other arrays are checked with the read value unconstrained and otherwise "
                    "counted as data-dependent (documented caller's responsibility)",
                    "kernels of programs outside the corpus", "loopy's own lowering"],
        "trusted": ["z3 (linear integer arithmetic with div/mod)", "extraction of domains/instructions from the loopy "
                    "TranslationUnit (pv/sem/knlsem.py, pv/sem/bounds.py)"],
    }
    return J, meta
