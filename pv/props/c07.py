"""C07 -- tags carry no semantics; implementation strategies are equivalent.

Per program a set of tag assignments (ImplStored / ImplInlined /
ImplSubstitution / Named / PrefixNamed / user array, axis and reduction tags on
seeded subsets of non-input nodes, plus targeted placements) is applied; the
kernel the real ``generate_loopy`` emits for each tagged variant is evaluated
at a symbolic index over uninterpreted inputs and must equal the *untagged*
NumPy meaning of the program (CrossHair/z3).  Names/shapes/dtypes of outputs
are side assertions.
"""
from __future__ import annotations

import random

import numpy as np

from pv import corpus as C
from pv.drive import Job, JobOut, Side
from pv.props.c01 import numeric_replay_against_numpy
from pv.props.kcommon import RenamingAlg, arg_table, generate
from pv.props.tcommon import value_obs
from pv.sem.symnp import SymNP

LEVEL = "translation_validation"
MOD = "pv.props.c07"

VARIANTS = ["all_stored", "all_subst", "all_inlined", "alternate", "random0", "random1", "random2", "named", "user_tags",
            "stored_reductions", "subst_in_reduction", "materialize_with_mpms", "stored_output_copy", "tagged_inputs", "assume_nonneg", "same_prefix_stored",
            "named_then_prefix", "prefix_subst"]
SYM_VARIANTS = ["prefix_sizeparam_stored", "prefix_sizeparam_subst", "all_stored", "alternate"]


def _nodes_in_order(dag):
    import pytato as pt
    from pytato.transform import TopoSortMapper
    m = TopoSortMapper()
    m(dag)
    def shape_arith(n):
        # scalar integer arithmetic on size parameters only: a shape component (n + m, 2*n + 1), not an array of the
        # computation -- the code generator turns these into ISL expressions and never implements them as arrays
        return (n.ndim == 0 and n.dtype.kind == "i"
                and all(isinstance(i_, pt.array.SizeParam) for i_ in pt.transform.InputGatherer()(n)))
    from pytato.loopy import LoopyCallResult
    return [n for n in m.topological_order
            if isinstance(n, pt.Array) and not isinstance(n, pt.array.InputArgumentBase)
            and (not isinstance(n, pt.array.NamedArray) or isinstance(n, LoopyCallResult))     # results of loopy calls are arrays like any other
            and not shape_arith(n)]


def tagger(variant: str, seed: int, nonneg=()):
    import pytato as pt
    from pytato.tags import ImplInlined, ImplStored, Named, PrefixNamed
    from pytato.target.loopy import ImplSubstitution
    from pv.props.c04tags import BazAxisTag, FooTag, BarTag

    def transform(dag, ins):
        if variant == "materialize_with_mpms":
            return pt.transform.materialize_with_mpms(dag)        # the real tag-adding transformation
        if variant == "stored_output_copy":
            # every output is returned as a *tagged copy* while other uses keep the untagged node
            return pt.make_dict_of_named_arrays({
                k: (dag[k].expr.tagged(ImplStored()) if not isinstance(dag[k].expr, pt.array.InputArgumentBase)
                    else dag[k].expr) for k in dag.keys()})
        if variant == "assume_nonneg":
            # the assumption tag on exactly those index arrays that ARE non-negative (declared by the program): a true
            # assumption must not change any value -- in particular not the wrap-around of the other index arrays
            from pytato.tags import AssumeNonNegative
            names = set(nonneg)

            def g(n):
                if isinstance(n, pt.array.InputArgumentBase) and getattr(n, "name", None) in names:
                    return n.tagged(AssumeNonNegative())
                return n
            return pt.transform.map_and_copy(dag, g)
        if variant == "tagged_inputs":
            # implementation / user tags on the *inputs* (placeholders, wrapped data), also where an input is
            # itself an output
            def g(n):
                if isinstance(n, pt.array.InputArgumentBase) and not isinstance(n, pt.array.SizeParam):
                    r = n.tagged(ImplStored()).tagged(FooTag())
                    from pytato.tags import _BaseNameTag
                    if isinstance(n, pt.array.DataWrapper):
                        for t_ in n.tags_of_type(_BaseNameTag):
                            r = r.without_tags(t_)
                        r = r.tagged(PrefixNamed("dwp"))         # every wrapped array asks for the same name prefix
                    return r.with_tagged_axis(0, BazAxisTag()) if r.ndim else r
                return n
            return pt.transform.map_and_copy(dag, g)
        nodes = _nodes_in_order(dag)
        outs = {id(dag[k].expr) for k in dag.keys()}
        order = {id(n): i for i, n in enumerate(nodes)}
        rnd = random.Random(f"{variant}/{seed}/{len(nodes)}")
        choice = {}
        for n in nodes:
            i = order[id(n)]
            has_red = isinstance(n, pt.IndexLambda) and bool(n.var_to_reduction_descr) or isinstance(n, pt.Einsum)
            if variant == "all_stored":
                choice[id(n)] = [ImplStored()]
            elif variant == "all_subst":
                choice[id(n)] = [ImplSubstitution()]
            elif variant == "all_inlined":
                choice[id(n)] = [ImplInlined()]
            elif variant == "alternate":
                choice[id(n)] = [[ImplStored()], [ImplSubstitution()], [ImplInlined()], []][i % 4]
            elif variant.startswith("random"):
                choice[id(n)] = rnd.choice([[ImplStored()], [ImplSubstitution()], [ImplInlined()], [], [],
                                            [ImplStored(), PrefixNamed(f"pfx{i}")], [FooTag()]])
            elif variant == "named":
                choice[id(n)] = [ImplStored(), Named(f"nm_{i}")] if i % 2 == 0 and id(n) not in outs else \
                    [PrefixNamed("tmpx")] if i % 3 == 0 else []
            elif variant == "same_prefix_stored":
                # every temporary asks for the same name prefix
                choice[id(n)] = [ImplStored(), PrefixNamed("tmpx")] if id(n) not in outs else []
            elif variant == "named_then_prefix":
                # one temporary takes the exact name the others' prefix would generate first
                choice[id(n)] = ([ImplStored(), Named("dup")] if i == 0 else [ImplStored(), PrefixNamed("dup")]) \
                    if id(n) not in outs else []
            elif variant == "prefix_subst":
                choice[id(n)] = ([ImplSubstitution(), Named("rule")] if i == 0 else [ImplSubstitution(), PrefixNamed("rule")]) \
                    if id(n) not in outs else []
            elif variant == "user_tags":
                choice[id(n)] = [FooTag(), BarTag()] if i % 2 else [FooTag()]
            elif variant == "stored_reductions":
                choice[id(n)] = [ImplStored()] if has_red else [ImplSubstitution()] if i % 2 else []
            elif variant == "subst_in_reduction":
                choice[id(n)] = [] if has_red else [ImplSubstitution()]
            elif variant.startswith("prefix_sizeparam"):
                # a temporary / substitution rule whose requested prefix is the name of a size parameter
                sp = sorted(s_.name for s_ in pt.transform.InputGatherer()(dag) if isinstance(s_, pt.array.SizeParam))
                impl = ImplStored() if variant.endswith("stored") else ImplSubstitution()
                choice[id(n)] = [impl, PrefixNamed(sp[i % len(sp)])] if sp and id(n) not in outs else []

        def f(n):
            if id(n) not in choice:
                return n
            r = n
            for t in choice[id(n)]:
                r = r.tagged(t)
            if variant == "user_tags" and r.ndim >= 1:
                r = r.with_tagged_axis(0, BazAxisTag())
                if isinstance(r, pt.IndexLambda) and r.var_to_reduction_descr:
                    r = r.with_tagged_reduction(sorted(r.var_to_reduction_descr)[0], FooTag())
            return r
        # map_and_copy visits the *original* nodes (ids preserved for the lookup)
        return pt.transform.map_and_copy(dag, f)
    return transform


def tagged_job(prog: str, variant: str, seed: int = 0) -> JobOut:
    progs = {p.name: p for p in C.corpus("thorough" if prog.startswith(("gen", "g2_")) else "quick", seed)}
    P = progs[prog]
    try:
        C.build_pytato(P)
    except Exception as e:  # noqa: BLE001
        return JobOut(declined=f"program not constructible: {type(e).__name__}: {e}")
    try:
        G0 = generate(P)
    except Exception as e:  # noqa: BLE001
        return JobOut(declined=f"untagged program does not generate (C01's subject): {type(e).__name__}: {e}")
    pre = f"{prog}/{variant}"
    try:
        G = generate(P, transform_dag=tagger(variant, seed, P.nonneg))
    except Exception as e:  # noqa: BLE001
        import traceback
        if isinstance(e, ValueError) and "Cannot assign the name" in str(e):
            # documented: a Named tag yields exactly that name or an error (the name was handed out before)
            return JobOut(declined=f"documented refusal: {str(e)[:80]}")
        return JobOut(sides=[Side(f"{pre}/tagged-variant-generates", False,
                                  f"{type(e).__name__}: {e}\n{traceback.format_exc(limit=6)}")])
    sides = [Side(f"{pre}/kernel-structure", not G.model.structural_problems, G.model.structural_problems[:5])]
    t0, t1 = arg_table(G0.model), arg_table(G.model)
    outs0 = {k: v[:2] for k, v in t0.items() if v[2]}
    outs1 = {k: v[:2] for k, v in t1.items() if v[2]}
    sides.append(Side(f"{pre}/same-output-names-shapes-dtypes", outs0 == outs1,
                      {"untagged": {k: str(v) for k, v in outs0.items()}, "tagged": {k: str(v) for k, v in outs1.items()}}))
    n_tmp0 = len(G0.model.temps)
    n_tmp1 = len(G.model.temps) + len(G.model.subst)
    kinds = C.kinds_of(P)
    want_np = C.build_numpy(P, G.data)
    cache = {}

    def ref_for(alg):
        if id(alg) not in cache:
            cache[id(alg)] = C.build_ref(P, SymNP(alg))[0]
        return cache[id(alg)]
    outputs = {}
    for k, v in want_np.items():
        def mk_a(alg, k=k):
            ralg = RenamingAlg(alg, G.rename)
            return lambda idx: G.model.at(ralg, k, idx)

        def mk_b(alg, k=k):
            r = ref_for(alg)[k]
            return lambda idx: r.at(idx)
        outputs[k] = (np.asarray(v).shape, mk_a, mk_b)
    obs = value_obs(pre, outputs, kinds, G.data, nsk=8, timeout=180, nonneg=P.nonneg,
                    info={"program": prog, "tag assignment": variant, "temporaries+substitutions (tagged)": n_tmp1,
                          "temporaries (untagged)": n_tmp0})
    for ob in obs:
        base = ob._replay

        def replay(o, args, base=base, name=ob.oid.rsplit("/", 1)[1]):
            rep, detail = base(o, args)
            if not rep:
                return rep, detail
            bad, how = numeric_replay_against_numpy(G, {name})
            if bad:
                return True, {"numeric": detail, "real_kernel_vs_numpy": bad[0][1], "engine": how}
            return False, {"why": "not confirmed by executing the real kernel", "engine": how}
        ob._replay = replay
    return JobOut(obs=obs, sides=sides, info={"program": prog, "variant": variant,
                                              "structure_differs_from_untagged": n_tmp1 != n_tmp0})


def sym_tagged_job(prog: str, variant: str, seed: int = 0) -> JobOut:
    """tagged variants of size-parameter programs: the kernel must stay well-formed (no generated name may
    shadow a size parameter / argument) and compute the untagged meaning for every size"""
    import pytato as pt
    from pv.props.c05 import _target
    from pv.props.common import Skolems, idx_params, in_range, sk_params, take, teq
    from pv.drive import FnOb
    from pv.sem.alg import TermAlg
    from pv.sem.knlsem import KernelModel
    P = {p.name: p for p in C.ALL_SYM}[prog]
    try:
        outs, ins, S = C.build_sym_pytato(P)
        dag0 = pt.transform.deduplicate(pt.make_dict_of_named_arrays(outs))
        pt.generate_loopy(dag0, target=_target())
    except Exception as e:  # noqa: BLE001
        return JobOut(declined=f"untagged program does not generate (C16's subject): {type(e).__name__}: {e}")
    pre = f"{prog}/{variant}"
    try:
        dag = pt.transform.deduplicate(tagger(variant, seed)(dag0, ins))
        bp = pt.generate_loopy(dag, target=_target())
        model = KernelModel(bp.program)
    except Exception as e:  # noqa: BLE001
        import traceback
        return JobOut(sides=[Side(f"{pre}/tagged-variant-generates", False, f"{type(e).__name__}: {e}\n{traceback.format_exc(limit=5)}")])
    sides = [Side(f"{pre}/kernel-structure", not model.structural_problems, model.structural_problems[:5])]
    # the tagged kernel must also get through loopy's own preprocessing (name clashes are diagnosed there)
    try:
        import loopy as lp
        lp.preprocess_program(bp.program) if hasattr(lp, "preprocess_program") else lp.preprocess_kernel(bp.program)
        sides.append(Side(f"{pre}/loopy-accepts-kernel", True))
    except Exception as e:  # noqa: BLE001
        sides.append(Side(f"{pre}/loopy-accepts-kernel", False, f"{type(e).__name__}: {str(e)[:300]}"))
    kinds = {n: "f" for n, *_ in P.inputs}
    obs = []
    if not model.structural_problems:
        for k in sorted(dag.keys()):
            nd = dag[k].ndim
            params = [(s_, "int") for s_ in P.sizes] + idx_params(nd) + sk_params(6)

            def pre_c(**p):
                return all(p[s_] >= P.min_size for s_ in P.sizes)

            def body_c(ob, k=k, nd=nd, **p):
                sizes = {s_: p[s_] for s_ in P.sizes}
                alg = TermAlg(kinds)
                ref, _ = C.build_sym_ref(P, SymNP(alg), sizes)
                idx = take(p, "i", nd)
                if not in_range(idx, ref[k].shape):
                    return True
                ob.reach()
                return teq(model.at(alg, k, idx, sizes=sizes), ref[k].at(idx), Skolems(take(p, "k", 6)))
            smp = {s_: 3 for s_ in P.sizes} | {f"i{d}": 0 for d in range(nd)} | {f"k{d}": 0 for d in range(6)}
            obs.append(FnOb(f"{pre}/{k}", params, body_c, pre_c, [smp], timeout=240, unbounded=P.sizes,
                            info={"program": prog, "tag assignment": variant, "sizes": "symbolic, unbounded"}))
    return JobOut(obs=obs, sides=sides)


def jobs(tier: str, seed: int):
    th = tier == "thorough"
    progs = C.corpus(tier, seed)
    if not th:
        keep = {"reduce_of_expr", "sharing", "matmul_chain", "stack_of_reductions", "reshape_cf", "adv_index", "where_idx",
                "roll_transpose", "einsum_forms", "data_wrappers", "mixed_pipeline", "reductions", "creation", "stack_concat",
                "out_is_input", "csr_matmul", "loopy_calls", "loopy_call_scalar_binding", "handmade_index_lambda",
                "like_dtype_override", "zero_size_reduction", "adv_index_4d", "csr_computed", "adv_index_nonneg", "adv_index_long", "logical_nonbool", "mixed_dtype_join", "narrowing_casts", "repeated_operands"}
        progs = [p for p in progs if p.name in keep or p.name.startswith("g2_")]
    J = []
    for P in progs:
        for v in VARIANTS:
            if v == "assume_nonneg" and not P.nonneg:
                continue
            J.append(Job(MOD, "tagged_job", {"prog": P.name, "variant": v, "seed": seed}, jid=f"{P.name}/{v}",
                         hard_timeout=1200))
    symprogs = C.sym_corpus("thorough") if th else C.SYM_GENERATED[:4] + [p for p in C.SYM_CORPUS if p.name in ("sym_elementwise", "sym_reduce_static", "sym_einsum",
                                                                            "sym_roll", "sym_stack")]
    for P in symprogs:
        for v in SYM_VARIANTS:
            J.append(Job(MOD, "sym_tagged_job", {"prog": P.name, "variant": v, "seed": seed}, jid=f"{P.name}/{v}",
                         hard_timeout=1200))
    meta = {
        "programs": len(progs) + len(symprogs),
        "explanation": "Translation validation of tagged variants: for each program x tag assignment the kernel from the "
                       "real generate_loopy (stored temporaries, substitution rules, inlined expressions, named "
                       "temporaries) is evaluated at a symbolic index over uninterpreted inputs and must equal the "
                       "untagged NumPy meaning (CrossHair/z3).",
        "bounds": {"programs": [p.name for p in progs], "tag assignments per program": VARIANTS,
                   "inputs / element indices": "all"},
        "outside": ["AssumeNonNegative on arrays that are NOT non-negative (a false assumption)",
                    "loopy's own code generation from the TranslationUnit"],
        "stubs": ["LoopyTarget subclass selecting loopy's C target (no OpenCL)"],
    }
    return J, meta
