"""C07 -- tags carry no semantics; implementation strategies are equivalent.

Per program a set of tag assignments (ImplStored / ImplInlined /
ImplSubstitution / Named / PrefixNamed / user array, axis and reduction tags on
seeded subsets of non-input nodes, plus targeted placements) is applied; the
kernel the real ``generate_loopy`` emits for each tagged variant is evaluated
at a symbolic index over uninterpreted inputs and must equal the *untagged*
NumPy meaning of the program (CrossHair/z3).  Names/shapes/dtypes of outputs
are side assertions.
"""
from __future__ import annotations

import random

import numpy as np

from pv import corpus as C
from pv.drive import Job, JobOut, Side
from pv.props.c01 import numeric_replay_against_numpy
from pv.props.kcommon import RenamingAlg, arg_table, generate
from pv.props.tcommon import value_obs
from pv.sem.symnp import SymNP

LEVEL = "translation_validation"
MOD = "pv.props.c07"

VARIANTS = ["all_stored", "all_subst", "all_inlined", "alternate", "random0", "random1", "random2", "named", "user_tags",
            "stored_reductions", "subst_in_reduction"]


def _nodes_in_order(dag):
    import pytato as pt
    from pytato.transform import TopoSortMapper
    m = TopoSortMapper()
    m(dag)
    return [n for n in m.topological_order
            if isinstance(n, pt.Array) and not isinstance(n, (pt.array.InputArgumentBase, pt.array.NamedArray))]


def tagger(variant: str, seed: int):
    import pytato as pt
    from pytato.tags import ImplInlined, ImplStored, Named, PrefixNamed
    from pytato.target.loopy import ImplSubstitution
    from pv.props.c04tags import BazAxisTag, FooTag, BarTag

    def transform(dag, ins):
        nodes = _nodes_in_order(dag)
        outs = {id(dag[k].expr) for k in dag.keys()}
        order = {id(n): i for i, n in enumerate(nodes)}
        rnd = random.Random(f"{variant}/{seed}/{len(nodes)}")
        choice = {}
        for n in nodes:
            i = order[id(n)]
            has_red = isinstance(n, pt.IndexLambda) and bool(n.var_to_reduction_descr) or isinstance(n, pt.Einsum)
            if variant == "all_stored":
                choice[id(n)] = [ImplStored()]
            elif variant == "all_subst":
                choice[id(n)] = [ImplSubstitution()]
            elif variant == "all_inlined":
                choice[id(n)] = [ImplInlined()]
            elif variant == "alternate":
                choice[id(n)] = [[ImplStored()], [ImplSubstitution()], [ImplInlined()], []][i % 4]
            elif variant.startswith("random"):
                choice[id(n)] = rnd.choice([[ImplStored()], [ImplSubstitution()], [ImplInlined()], [], [],
                                            [ImplStored(), PrefixNamed(f"pfx{i}")], [FooTag()]])
            elif variant == "named":
                choice[id(n)] = [ImplStored(), Named(f"nm_{i}")] if i % 2 == 0 and id(n) not in outs else \
                    [PrefixNamed("tmpx")] if i % 3 == 0 else []
            elif variant == "user_tags":
                choice[id(n)] = [FooTag(), BarTag()] if i % 2 else [FooTag()]
            elif variant == "stored_reductions":
                choice[id(n)] = [ImplStored()] if has_red else [ImplSubstitution()] if i % 2 else []
            elif variant == "subst_in_reduction":
                choice[id(n)] = [] if has_red else [ImplSubstitution()]

        def f(n):
            if id(n) not in choice:
                return n
            r = n
            for t in choice[id(n)]:
                r = r.tagged(t)
            if variant == "user_tags" and r.ndim >= 1:
                r = r.with_tagged_axis(0, BazAxisTag())
                if isinstance(r, pt.IndexLambda) and r.var_to_reduction_descr:
                    r = r.with_tagged_reduction(sorted(r.var_to_reduction_descr)[0], FooTag())
            return r
        # map_and_copy visits the *original* nodes (ids preserved for the lookup)
        return pt.transform.map_and_copy(dag, f)
    return transform


def tagged_job(prog: str, variant: str, seed: int = 0) -> JobOut:
    progs = {p.name: p for p in C.corpus("thorough" if prog.startswith("gen") else "quick", seed)}
    P = progs[prog]
    try:
        C.build_pytato(P)
    except Exception as e:  # noqa: BLE001
        return JobOut(declined=f"program not constructible: {type(e).__name__}: {e}")
    try:
        G0 = generate(P)
    except Exception as e:  # noqa: BLE001
        return JobOut(declined=f"untagged program does not generate (C01's subject): {type(e).__name__}: {e}")
    pre = f"{prog}/{variant}"
    try:
        G = generate(P, transform_dag=tagger(variant, seed))
    except Exception as e:  # noqa: BLE001
        import traceback
        return JobOut(sides=[Side(f"{pre}/tagged-variant-generates", False,
                                  f"{type(e).__name__}: {e}\n{traceback.format_exc(limit=6)}")])
    sides = [Side(f"{pre}/kernel-structure", not G.model.structural_problems, G.model.structural_problems[:5])]
    t0, t1 = arg_table(G0.model), arg_table(G.model)
    outs0 = {k: v[:2] for k, v in t0.items() if v[2]}
    outs1 = {k: v[:2] for k, v in t1.items() if v[2]}
    sides.append(Side(f"{pre}/same-output-names-shapes-dtypes", outs0 == outs1,
                      {"untagged": {k: str(v) for k, v in outs0.items()}, "tagged": {k: str(v) for k, v in outs1.items()}}))
    n_tmp0 = len(G0.model.temps)
    n_tmp1 = len(G.model.temps) + len(G.model.subst)
    kinds = C.kinds_of(P)
    want_np = C.build_numpy(P, G.data)
    cache = {}

    def ref_for(alg):
        if id(alg) not in cache:
            cache[id(alg)] = C.build_ref(P, SymNP(alg))[0]
        return cache[id(alg)]
    outputs = {}
    for k, v in want_np.items():
        def mk_a(alg, k=k):
            ralg = RenamingAlg(alg, G.rename)
            return lambda idx: G.model.at(ralg, k, idx)

        def mk_b(alg, k=k):
            r = ref_for(alg)[k]
            return lambda idx: r.at(idx)
        outputs[k] = (np.asarray(v).shape, mk_a, mk_b)
    obs = value_obs(pre, outputs, kinds, G.data, nsk=8, timeout=180,
                    info={"program": prog, "tag assignment": variant, "temporaries+substitutions (tagged)": n_tmp1,
                          "temporaries (untagged)": n_tmp0})
    for ob in obs:
        base = ob._replay

        def replay(o, args, base=base, name=ob.oid.rsplit("/", 1)[1]):
            rep, detail = base(o, args)
            if not rep:
                return rep, detail
            bad, how = numeric_replay_against_numpy(G, {name})
            if bad:
                return True, {"numeric": detail, "real_kernel_vs_numpy": bad[0][1], "engine": how}
            return False, {"why": "not confirmed by executing the real kernel", "engine": how}
        ob._replay = replay
    return JobOut(obs=obs, sides=sides, info={"program": prog, "variant": variant,
                                              "structure_differs_from_untagged": n_tmp1 != n_tmp0})


def jobs(tier: str, seed: int):
    th = tier == "thorough"
    progs = C.corpus(tier, seed)
    if not th:
        keep = {"reduce_of_expr", "sharing", "matmul_chain", "stack_of_reductions", "reshape_cf", "adv_index", "where_idx",
                "roll_transpose", "einsum_forms", "data_wrappers", "mixed_pipeline", "reductions", "creation", "stack_concat",
                "out_is_input"}
        progs = [p for p in progs if p.name in keep]
    J = []
    for P in progs:
        for v in VARIANTS:
            J.append(Job(MOD, "tagged_job", {"prog": P.name, "variant": v, "seed": seed}, jid=f"{P.name}/{v}",
                         hard_timeout=1200))
    meta = {
        "programs": len(progs),
        "explanation": "Translation validation of tagged variants: for each program x tag assignment the kernel from the "
                       "real generate_loopy (stored temporaries, substitution rules, inlined expressions, named "
                       "temporaries) is evaluated at a symbolic index over uninterpreted inputs and must equal the "
                       "untagged NumPy meaning (CrossHair/z3).",
        "bounds": {"programs": [p.name for p in progs], "tag assignments per program": VARIANTS,
                   "inputs / element indices": "all"},
        "outside": ["tags on input nodes", "AssumeNonNegative (an assumption tag, not a neutral one)",
                    "loopy's own code generation from the TranslationUnit"],
        "stubs": ["LoopyTarget subclass selecting loopy's C target (no OpenCL)"],
    }
    return J, meta
