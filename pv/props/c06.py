"""C06 -- algebraic einsum rewrites never change the computed value.

The real ``apply_distributive_property_to_einsums`` (under *every* distribution
policy of each program) and ``rewrite_einsums_with_no_broadcasts`` run
concretely.  Original and rewritten DAG are unrolled element by element into
z3 real arithmetic over uninterpreted input arrays (``pv.sem.z3alg``) and z3
is asked for inputs on which some output element differs: ``unsat`` = the
rewrite is an identity over the reals for all inputs.  A ``sat`` model is
replayed numerically on both real DAGs before anything is reported.
"""
from __future__ import annotations

import itertools
import time

import numpy as np

from pv import corpus as C
from pv.drive import HarnessError, Job, JobOut, Side, SmtOb
from pv.runner import load_findings
from pv.sem.alg import NumAlg, num_close
from pv.sem.ptsem import PtEval

LEVEL = "translation_validation"
MOD = "pv.props.c06"
F64 = np.float64


def _ph(name, shape, dtype=F64):
    import pytato as pt
    return pt.make_placeholder(name, shape, dtype)


def programs():
    """name -> callable() -> (inputs dict, outputs dict)"""
    import pytato as pt
    P = {}

    def reg(name, shapes, fn):
        def build():
            ins = {n: _ph(n, s) for n, s in shapes.items()}
            outs = fn(**ins)
            # programs may create extra placeholders: collect them
            from pytato.transform import InputGatherer
            for o in outs.values():
                for i in InputGatherer()(o):
                    if isinstance(i, pt.array.Placeholder) and i.name not in ins:
                        ins[i.name] = i
            return ins, outs
        P[name] = build

    reg("mv_sum", {"A": (3, 2), "x": (2,), "y": (2,)}, lambda A, x, y: {"o": A @ (x + y)})
    reg("mv_diff", {"A": (3, 2), "x": (2,), "y": (2,)}, lambda A, x, y: {"o": A @ (x - y)})
    reg("mv_scale_r", {"A": (3, 2), "x": (2,)}, lambda A, x: {"o": A @ (x * 2.5)})
    reg("mv_scale_l", {"A": (3, 2), "x": (2,)}, lambda A, x: {"o": A @ (2.5 * x)})
    reg("mv_div_r", {"A": (3, 2), "x": (2,)}, lambda A, x: {"o": A @ (x / 4.0)})
    reg("mv_div_l", {"A": (3, 2), "x": (2,)}, lambda A, x: {"o": A @ (3.0 / x)})
    reg("mv_mul_arrays", {"A": (3, 2), "x": (2,), "y": (2,)}, lambda A, x, y: {"o": A @ (x * y)})
    reg("mv_div_arrays", {"A": (3, 2), "x": (2,), "y": (2,)}, lambda A, x, y: {"o": A @ (x / y)})
    reg("mv_pow", {"A": (3, 2), "x": (2,)}, lambda A, x: {"o": A @ (x ** 2)})
    reg("mv_pow_rev", {"A": (3, 2), "x": (2,)}, lambda A, x: {"o": A @ (2 ** x)})
    reg("mv_sin", {"A": (3, 2), "x": (2,), "y": (2,)}, lambda A, x, y: {"o": A @ pt.sin(x + y)})
    reg("mv_tree", {"A": (3, 2), "x": (2,), "y": (2,), "z": (2,)},
        lambda A, x, y, z: {"o": A @ ((x + y) * 2.0 - z / 3.0)})
    reg("mv_tree2", {"A": (3, 2), "x": (2,), "y": (2,)},
        lambda A, x, y: {"o": A @ (2.0 / (x + y) + (x - y) * 0.5)})
    reg("mv_sub_scalar", {"A": (3, 2), "x": (2,)}, lambda A, x: {"o": A @ (x - 1.0), "p": A @ (1.0 - x)})
    reg("mv_add_bcast", {"A": (3, 2), "x": (2,), "s": ()}, lambda A, x, s: {"o": A @ (x + s)})
    reg("mv_neg", {"A": (3, 2), "x": (2,), "y": (2,)}, lambda A, x, y: {"o": A @ (-(x + y))})
    reg("left_operand", {"A": (3, 2), "B": (3, 2), "x": (2,)}, lambda A, B, x: {"o": (A + B) @ x, "p": (A * 2.0) @ x})
    reg("mm_both", {"A": (2, 3), "B": (2, 3), "C": (3, 2), "D": (3, 2)},
        lambda A, B, C, D: {"o": (A + B) @ (C - D)})
    reg("einsum3", {"A": (2, 3), "x": (3,), "y": (3,), "w": (2,)},
        lambda A, x, y, w: {"o": pt.einsum("ij,j,i->i", A, x + y, w), "p": pt.einsum("ij,j,i->", A, x * 2.0, w - 1.0)})
    reg("nested", {"A": (2, 2), "B": (2, 2), "x": (2,), "y": (2,)},
        lambda A, B, x, y: {"o": A @ (B @ (x + y) + y)})
    reg("nested2", {"A": (2, 2), "B": (2, 2), "x": (2,), "y": (2,)},
        lambda A, B, x, y: {"o": A @ ((B @ x) * 2.0 - (B @ y))})
    reg("two_einsums", {"A": (2, 3), "x": (3,), "y": (3,)},
        lambda A, x, y: {"o": A @ (x + y) + A @ (x - y), "p": (A @ x) / 2.0})
    reg("indexing", {"A": (2, 2), "t": (3, 2)}, lambda A, t: {"o": A @ (t[0] + t[2]), "p": A @ (t[::2].T[:, 0] - t[1])})
    reg("reshape_transpose", {"A": (2, 4), "m": (2, 2), "n": (2, 2)},
        lambda A, m, n: {"o": A @ pt.reshape(m + n, (4,)), "p": A[:, :2] @ (m.T + n)})
    reg("bcast_unit", {"a": (3, 2, 1), "b": (3, 1, 2), "c": (3, 1, 2)},
        lambda a, b, c: {"o": pt.einsum("ijk,ijk->i", a, b + c), "p": pt.einsum("ijk,ijk->ij", a * 2.0, b)})
    reg("bcast_unit2", {"a": (1, 3), "b": (2, 3), "x": (3,), "y": (3,)},
        lambda a, b, x, y: {"o": pt.einsum("ij,ij->i", a, b), "p": pt.einsum("ij,j->i", a, x + y)})
    reg("where_inside", {"A": (2, 2), "x": (2,), "y": (2,)},
        lambda A, x, y: {"o": A @ pt.where(pt.less(x, y), x + y, x - y)})
    reg("stack_inside", {"A": (2, 2), "x": (2,), "y": (2,)},
        lambda A, x, y: {"o": A @ pt.stack([x + y, x - y], axis=1)})
    reg("scale_chain", {"A": (2, 2), "x": (2,)}, lambda A, x: {"o": A @ (((x * 2.0) / 4.0) * 0.5), "p": A @ (1.0 / (2.0 * x))})
    # a broadcast unit axis that is a *reduction* index of the einsum
    reg("bcast_reduction_axis", {"U": (3, 2), "m": (3, 1), "w": (3,)},
        lambda U, m, w: {"o": pt.einsum("ij,i->i", U - m, w), "p": pt.einsum("ij->i", 0.5 * (U + m)),
                         "q": pt.einsum("ij,j->i", U + m, pt.make_placeholder("v2", (2,), F64))})
    reg("bcast_reduction_axis2", {"U": (2, 3), "r": (1, 3), "w": (2,)},
        lambda U, r, w: {"o": pt.einsum("ij,i->j", U + r, w), "p": pt.einsum("ij,i->", U - r, w)})
    # two distributed einsums of the same kind over a shared operand, different surrounding operands
    reg("shared_flux", {"Dx": (2, 2), "Dy": (2, 2), "u": (2,), "v": (2,), "f": (2,)},
        lambda Dx, Dy, u, v, f: (lambda flux: {"o": Dx @ flux + Dy @ flux, "p": Dx @ (u + v) - Dy @ (u - f)})(u + 2.0 * v))
    reg("cyclic_transpose_3d", {"X": (2, 2, 2), "Y": (2, 2, 2), "v": (2,), "T": (2, 3, 4), "U": (2, 3, 4), "w4": (4,)},
        lambda X, Y, v, T, U, w4: {"o": pt.einsum("ijk,k->ij", pt.transpose(X + Y, (1, 2, 0)), v),
                                   "p": pt.einsum("ijk,k->ji", pt.transpose(X - Y, (2, 0, 1)) * 2.0, v),
                                   "q": pt.einsum("ijk,i->jk", pt.transpose(T + U, (2, 0, 1)), w4),
                                   "r": pt.einsum("ijk,j->ik", pt.transpose(T, (1, 2, 0)) + pt.transpose(U, (1, 2, 0)), w4)})
    reg("reshape_F_unit_operand", {"a": (8,), "b": (2, 3, 4), "c": (4, 2)},
        lambda a, b, c: {"o": pt.einsum("ijk,ijk->ik", pt.reshape(a, (2, 1, 4), order="F"), b),
                         "p": pt.einsum("ijk,ijk->i", pt.reshape(c, (2, 1, 4), order="F"), b),
                         "q": pt.einsum("ijk,ijk->jk", pt.reshape(a, (2, 1, 4), order="C"), b),
                         "r": pt.einsum("ij,ij->i", pt.reshape(c, (8, 1), order="F"), pt.reshape(b, (8, 3), order="F"))})
    # complex operands: real/imag/conj are additive but not linear over the complex numbers
    reg("complex_parts", {"w": (2,)},
        lambda w: (lambda A, z: {"cj": A @ pt.conj(z + w), "re": A @ (pt.real(z) + w), "im": A @ (pt.imag(z) - w)})(
            pt.make_placeholder("Ac", (2, 2), np.complex128), pt.make_placeholder("zc", (2,), np.complex128)))
    # einsum operands that are themselves index / reshape nodes with unit axes (squeezing must address the right axis)
    reg("indexed_unit_operand", {"x": (3, 4, 5), "b": (4, 6), "c": (3, 6)},
        lambda x, b, c: {"o": pt.einsum("ij,ij->ij", x[1, :, 2:3], b), "p": pt.einsum("ij,ij->i", x[:, 2, 4:5], c),
                         "q": pt.einsum("ij,ij->ji", x[0:1, 3, :][:, :4].T[:, 0:1], b), "r": pt.einsum("ij,ij->j", x[2:3, 1, 0:4].T, b)})
    # Boolean (and integer) operands: bool + bool is a logical OR, not an addition
    reg("bool_operands", {"x": (2,)},
        lambda x: (lambda A, b1, b2, m: {"bb": A @ (b1 + b2), "bx": A @ (b1 + x), "mm": A @ (m + m), "bm": A @ (b1 * 2 + m)})(
            pt.make_placeholder("Ai", (3, 2), np.int64), pt.make_placeholder("b1", (2,), np.bool_),
            pt.make_placeholder("b2", (2,), np.bool_), pt.make_placeholder("mi", (2,), np.int64)))
    # 0-d operands of an einsum, scaled; literal zeros in sums and differences
    reg("zero_d_operand", {"v": (3,), "s": (), "t": ()},
        lambda v, s, t: {"a": pt.einsum("i,->i", v, 2.0 * s), "b": pt.einsum("i,->", v, s * t), "c": pt.einsum("i,->i", v, (s + t) / 3.0),
                         "d": pt.einsum("i,->i", v, s / t)})
    reg("literal_zero", {"A": (2, 2), "x": (2,), "y": (2,)},
        lambda A, x, y: {"a": A @ (0 - x), "b": A @ (y + 2.0 * (0.0 - x)), "c": 0 - A @ (x + y), "d": A @ (0 + x), "e": A @ (x - 0.0)})
    reg("sum_of_three", {"A": (2, 2), "x": (2,), "y": (2,), "z": (2,)}, lambda A, x, y, z: {"o": A @ (x + y + z)})
    # operations on the distribution path that are NOT linear: nothing may be pushed through them
    # (one program per three outputs: every subset of einsums gets its own distribution policy)
    reg("nonlinear_on_path_div", {"A": (2, 2), "x": (2,), "w": (2,)},
        lambda A, x, w: {"fd": A @ (x // 2.0 - w), "fd2": A @ ((x + w) // 2.0), "rfd": A @ (2.0 // x + w)})
    reg("nonlinear_on_path_pow", {"A": (2, 2), "x": (2,), "w": (2,)},
        lambda A, x, w: {"md": A @ (x % 3.0 + w), "pw": A @ (x ** 2.0 + w), "sq": A @ (pt.sqrt(x * x + 1.0) + w)})
    reg("nonlinear_on_path_sel", {"A": (2, 2), "x": (2,), "w": (2,)},
        lambda A, x, w: {"ab": A @ (abs(x) - w), "wh": A @ (pt.where(pt.greater(x, w), x, w) - x)})
    return P


def _gen_tree(rnd, depth, leaves, pt):
    """random operand tree producing a length-2 vector; returns (builder(ins) -> Array, text)"""
    if depth == 0 or rnd.random() < 0.25:
        kind = rnd.choice(["leaf", "leaf", "row", "col"])
        if kind == "leaf":
            n = rnd.choice(leaves)
            return (lambda ins, n=n: ins[n]), n
        if kind == "row":
            k = rnd.randrange(3)
            return (lambda ins, k=k: ins["M"][k]), f"M[{k}]"
        k = rnd.randrange(2)
        return (lambda ins, k=k: ins["N"].T[k]), f"N.T[{k}]"
    op = rnd.choice(["add", "sub", "mul_s", "s_mul", "div_s", "s_div", "mul", "div", "pow", "sin", "neg", "add", "sub",
                     "mul_s", "div_s", "reshape", "sub_s", "s_sub"])
    a, ta = _gen_tree(rnd, depth - 1, leaves, pt)
    c = rnd.choice([2.0, 0.5, 3.0, -1.5])
    if op in ("add", "sub", "mul", "div"):
        b, tb = _gen_tree(rnd, depth - 1, leaves, pt)
        f = {"add": lambda u, v: u + v, "sub": lambda u, v: u - v, "mul": lambda u, v: u * v, "div": lambda u, v: u / v}[op]
        return (lambda ins, a=a, b=b, f=f: f(a(ins), b(ins))), f"({ta} {op} {tb})"
    if op == "mul_s":
        return (lambda ins, a=a, c=c: a(ins) * c), f"({ta} * {c})"
    if op == "s_mul":
        return (lambda ins, a=a, c=c: c * a(ins)), f"({c} * {ta})"
    if op == "div_s":
        return (lambda ins, a=a, c=c: a(ins) / c), f"({ta} / {c})"
    if op == "s_div":
        return (lambda ins, a=a, c=c: c / a(ins)), f"({c} / {ta})"
    if op == "sub_s":
        return (lambda ins, a=a, c=c: a(ins) - c), f"({ta} - {c})"
    if op == "s_sub":
        return (lambda ins, a=a, c=c: c - a(ins)), f"({c} - {ta})"
    if op == "pow":
        return (lambda ins, a=a: a(ins) ** 2), f"({ta} ** 2)"
    if op == "sin":
        return (lambda ins, a=a: pt.sin(a(ins))), f"sin({ta})"
    if op == "reshape":
        return (lambda ins, a=a: pt.reshape(pt.reshape(a(ins), (2, 1)), (2,))), f"reshape({ta})"
    return (lambda ins, a=a: -a(ins)), f"(-{ta})"


def generated_programs(seed, n):
    import random
    import pytato as pt
    rnd = random.Random(4242 + seed)
    P = {}
    shapes = {"A": (3, 2), "A2": (3, 2), "B": (2, 2), "M": (3, 2), "N": (2, 2), "x": (2,), "y": (2,), "z": (2,), "w": (3,),
              "col": (3, 1)}
    for k in range(n):
        t1, s1 = _gen_tree(rnd, rnd.randint(1, 3), ["x", "y", "z"], pt)
        t2, s2 = _gen_tree(rnd, rnd.randint(1, 2), ["x", "y"], pt)
        form = rnd.choice(["mv", "mv", "nested", "three", "left", "two", "shared", "bred"])

        def fn(ins, t1=t1, t2=t2, form=form):
            A, B, w = ins["A"], ins["B"], ins["w"]
            if form == "mv":
                return {"o": A @ t1(ins)}
            if form == "nested":
                return {"o": A @ (B @ t1(ins) + t2(ins))}
            if form == "three":
                return {"o": pt.einsum("ij,j,i->i", A, t1(ins), w), "p": pt.einsum("ij,j,i->", A, t2(ins), w)}
            if form == "left":
                return {"o": t1(ins) @ B, "p": (B + B.T) @ t2(ins)}
            if form == "shared":
                t = t1(ins)
                return {"o": A @ t + ins["A2"] @ t, "p": A @ (t + t2(ins)) - ins["A2"] @ (t - t2(ins))}
            if form == "bred":
                c = ins["col"]
                return {"o": pt.einsum("ij,i->i", A + c, w), "p": pt.einsum("ij->i", 0.5 * (A - c)),
                        "q": pt.einsum("ij,j->i", A - c, t1(ins))}
            return {"o": A @ t1(ins) - A @ t2(ins)}

        def build(fn=fn):
            ins = {nm: _ph(nm, shp) for nm, shp in shapes.items()}
            return ins, fn(ins)
        build.text = f"{form}: t1 = {s1}; t2 = {s2}"
        P[f"gen{seed}_{k}"] = build
    return P


def all_programs(tier, seed):
    P = programs()
    P.update(generated_programs(seed, 150 if tier == "thorough" else 50))
    return P


def _einsums_of(dag):
    import pytato as pt
    from pytato.transform import CachedWalkMapper
    found = []

    class W(CachedWalkMapper):
        def get_cache_key(self, expr):
            return id(expr)

        def post_visit(self, expr):
            if isinstance(expr, pt.Einsum):
                found.append(expr)
    W()(dag)
    return found


class RewriteOb(SmtOb):
    def __init__(self, oid, orig, new, shapes, info, exclude_known=None, xcheck=False):
        super().__init__()
        self.oid, self.orig, self.new, self.shapes, self.info = oid, orig, new, shapes, info
        self.params = []
        self.samples = []
        self.xcheck = xcheck
        self.stats = {}

    def _terms(self):
        import z3
        from pv.sem.z3alg import Z3Alg
        alg = Z3Alg()
        ev = PtEval(alg)
        diffs = []
        n = 0
        for k, shape in self.shapes.items():
            for idx in itertools.product(*[range(int(s)) for s in shape]):
                a = alg.real(ev.at(self.orig[k], idx))
                b = alg.real(ev.at(self.new[k], idx))
                n += 1
                if a.eq(b):
                    continue
                diffs.append((k, idx, a, b))
        return alg, diffs, n

    def solve(self):
        import z3
        t0 = time.time()
        alg, diffs, n = self._terms()
        res = {"solver_queries": 0, "solver_s": 0.0, "elements": n}
        if not diffs:
            res.update(status="confirmed", message=f"{n} output elements syntactically identical")
            return res
        s = z3.Solver()
        s.set("timeout", 20000)
        s.add(z3.Or([a != b for _, _, a, b in diffs]))
        t1 = time.time()
        r = s.check()
        res.update(solver_queries=1, solver_s=round(time.time() - t1, 3))
        if self.xcheck and str(r) in ("sat", "unsat"):
            from pv.sem.crosscheck import cvc5_verdict
            v = cvc5_verdict(s, timeout_s=15)
            self.info["cvc5"] = v
            self.stats = {"cvc5_agree": int(v == str(r)), "cvc5_unknown": int(v not in ("sat", "unsat")),
                          "cvc5_disagree": int(v in ("sat", "unsat") and v != str(r))}
            if v in ("sat", "unsat") and v != str(r):
                res.update(status="inconclusive", reason=f"solver disagreement: z3 {r}, cvc5 {v}")
                return res
        if str(r) == "unsat":
            res.update(status="confirmed", message=f"unsat over {len(diffs)} differing element terms of {n}")
        elif str(r) == "sat":
            m = s.model()
            model = {}
            for (name, idx), c in alg.reads.items():
                v = m.eval(c, model_completion=True)
                try:
                    f = float(v.as_fraction()) if hasattr(v, "as_fraction") else float(v.as_decimal(12).rstrip("?"))
                except Exception:  # noqa: BLE001
                    f = 1.5
                model[f"{name}|{','.join(map(str, idx))}"] = f
            res.update(status="refuted", args={"model": model}, message="sat")
        else:
            res.update(status="inconclusive", reason=f"z3 answered {r}")
        res["wall_s"] = round(time.time() - t0, 3)
        return res

    def replay(self, args):
        """numeric: evaluate both real DAGs with NumPy scalars on the model's values
        (and on two generic inputs) -- scale-aware tolerance"""
        inputs = {}
        dts = self.info.get("input_dtypes", {})
        for k in self.info["inputs"]:
            shp = tuple(self.info["inputs"][k])
            # (complex inputs: the solver reasons over a commutative field with conj/real/imag uninterpreted, which is
            #  sound for "unsat"; a sat model has real values only, so the replay gives complex inputs a generic
            #  imaginary part)
            dt_k = np.dtype(dts.get(k, "float64"))
            inputs[k] = C.default_data(k, shp, dt_k) + 0.0 if dt_k.kind in "fc" else np.array(C.default_data(k, shp, dt_k))
        trials = [dict((k, v.copy()) for k, v in inputs.items())]
        mod = {k: v.copy() for k, v in inputs.items()}
        for key, val in (args.get("model") or {}).items():
            name, idx = key.split("|")
            idx = tuple(int(i) for i in idx.split(",")) if idx else ()
            if abs(val) < 1e6 and mod[name].dtype.kind in "fc":
                mod[name][idx] = val
        trials.insert(0, mod)
        trials.append({k: (np.abs(v) + 0.5 if v.dtype.kind == "f" else v) for k, v in inputs.items()})
        for data in trials:
            ev = PtEval(NumAlg(data))
            for k, shape in self.shapes.items():
                for idx in itertools.product(*[range(int(s)) for s in shape]):
                    with np.errstate(all="ignore"):
                        a, b = ev.at(self.orig[k], idx), ev.at(self.new[k], idx)
                    if not (np.isfinite(a) and np.isfinite(b)):
                        continue
                    scale = max(1.0, float(np.max([np.max(np.abs(v)) for v in data.values()])) ** 2)
                    if not num_close(a, b, rtol=1e-7, atol=1e-9, scale=scale):
                        return True, {"output": k, "index": list(idx), "original": complex(a) if np.iscomplexobj(a) else float(a),
                                      "rewritten": complex(b) if np.iscomplexobj(b) else float(b),
                                      "inputs": {n: (v.tolist() if not np.iscomplexobj(v) else str(v.tolist())) for n, v in data.items()}}
        return False, {"why": "sat over the reals with uninterpreted inv(), but numerically equal (abstraction)"}


def distribute_job(prog: str, seed: int = 0, gen_tier: str = "quick") -> JobOut:
    import pytato as pt
    from pytato.transform.einsum_distributive_law import (DoDistribute, DoNotDistribute,
                                                          apply_distributive_property_to_einsums)
    build = all_programs("thorough" if gen_tier == "thorough" else "quick", seed)[prog]
    ins, outs = build()
    dag = pt.transform.deduplicate(pt.make_dict_of_named_arrays(outs))
    es = _einsums_of(dag)
    listed = load_findings("C06")
    obs, sides = [], []
    choices = [[None] + list(range(len(e.args))) for e in es]
    n_declined = 0
    shapes = {k: tuple(dag[k].shape) for k in dag.keys()}
    info_in = {k: list(v.shape) for k, v in ins.items()}
    info_dt = {k: str(v.dtype) for k, v in ins.items()}
    for combo in itertools.product(*choices):
        pol = {id(e): c for e, c in zip(es, combo)}

        def how(e, pol=pol):
            c = pol.get(id(e))
            if c is None:
                # einsums created by the rewrite itself are never distributed again
                return DoNotDistribute()
            return DoDistribute(ioperand=c)
        label = ",".join("-" if c is None else str(c) for c in combo)
        try:
            new = apply_distributive_property_to_einsums(dag, how)
        except RuntimeError as e:
            if "composed" in str(e):
                n_declined += 1       # documented refusal
                continue
            sides.append(Side(f"{prog}/[{label}]/runs", False, f"RuntimeError: {e}"))
            continue
        except Exception as e:  # noqa: BLE001
            import traceback
            sides.append(Side(f"{prog}/[{label}]/runs", False, f"{type(e).__name__}: {e}\n{traceback.format_exc(limit=5)}"))
            continue
        ok = set(new.keys()) == set(dag.keys()) and all(new[k].shape == dag[k].shape for k in dag.keys())
        sides.append(Side(f"{prog}/[{label}]/names-shapes", ok))
        if not ok:
            continue
        obs.append(RewriteOb(f"{prog}/distribute[{label}]", {k: dag[k] for k in dag.keys()},
                             {k: new[k] for k in dag.keys()}, shapes,
                             {"program": prog, "policy": label, "einsums": len(es), "inputs": info_in, "input_dtypes": info_dt,
                              "expression": getattr(build, "text", "hand-written"),
                              "encoding": "z3 reals, uninterpreted inputs, x/y as x*inv(y), reductions unrolled"},
                             xcheck=(gen_tier == "thorough")))
        if any(np.dtype(d).kind not in "fc" for d in info_dt.values()):
            # the solver's algebra is a field: Boolean / integer operands (bool + bool is OR, casts to int) are outside
            # it.  Programs with such inputs are evaluated on sample data with NumPy scalars instead (sampling, not a
            # verdict -- listed under "outside" in the evidence); no SMT obligation is claimed for them.
            ob_ = obs.pop()
            try:
                rep, det = ob_.replay({})
            except Exception as e:  # noqa: BLE001
                rep, det = True, f"{type(e).__name__}: {e}"
            sides.append(Side(f"{prog}/[{label}]/numeric-agreement-on-sample-data", not rep, det))
    return JobOut(obs=obs, sides=sides, info={"policies_declined_as_composed": n_declined})


def nobroadcast_job(prog: str, seed: int = 0, gen_tier: str = "quick") -> JobOut:
    import pytato as pt
    ins, outs = all_programs("thorough" if gen_tier == "thorough" else "quick", seed)[prog]()
    dag = pt.transform.deduplicate(pt.make_dict_of_named_arrays(outs))
    try:
        new = pt.rewrite_einsums_with_no_broadcasts(dag)
    except Exception as e:  # noqa: BLE001
        import traceback
        return JobOut(sides=[Side(f"{prog}/no-broadcasts/runs", False, f"{type(e).__name__}: {e}\n{traceback.format_exc(limit=5)}")])
    shapes = {k: tuple(dag[k].shape) for k in dag.keys()}
    sides = [Side(f"{prog}/no-broadcasts/names-shapes",
                  set(new.keys()) == set(dag.keys()) and all(new[k].shape == dag[k].shape for k in dag.keys()))]
    # every einsum of the result is broadcast-free
    bfree = True
    for e in _einsums_of(new):
        lens = e._access_descr_to_axis_len()
        for arg, ds in zip(e.args, e.access_descriptors):
            for n, d in zip(arg.shape, ds):
                if n != lens[d]:
                    bfree = False
    sides.append(Side(f"{prog}/no-broadcasts/result-is-broadcast-free", bfree))
    ob = RewriteOb(f"{prog}/no-broadcasts", {k: dag[k] for k in dag.keys()}, {k: new[k] for k in dag.keys()}, shapes,
                   {"program": prog, "rewrite": "rewrite_einsums_with_no_broadcasts",
                    "inputs": {k: list(v.shape) for k, v in ins.items()},
                    "input_dtypes": {k: str(v.dtype) for k, v in ins.items()}})
    return JobOut(obs=[ob], sides=sides)


def jobs(tier: str, seed: int):
    P = all_programs(tier, seed)
    J = []
    for name in P:
        kw = {"prog": name, "seed": seed, "gen_tier": tier}
        J.append(Job(MOD, "distribute_job", kw, jid=f"{name}/distribute", hard_timeout=900))
        J.append(Job(MOD, "nobroadcast_job", kw, jid=f"{name}/nobroadcast", hard_timeout=600))
    meta = {
        "programs": len(P),
        "explanation": "Translation validation with a direct SMT query: the real einsum rewrites run on each program under "
                       "every distribution policy; both DAGs are unrolled per output element into z3 real arithmetic "
                       "over uninterpreted input arrays; unsat of 'some element differs' = identity for all inputs.",
        "bounds": {"programs": f"{len(P)}: 30 hand-written + seeded operand trees over + - * / (array and scalar on either side), "
                               "** 2, sin, neg, indexing, reshape, transpose inside 1..3 (nested) einsums/matmuls", "policies": "all (each einsum: do-not-distribute or distribute over each operand)",
                   "axis extents": "<= 4 (element indices enumerated, reductions unrolled)",
                   "inputs": "all real values (uninterpreted arrays)"},
        "outside": ["floating-point rounding (identity is over the reals; candidates are replayed numerically)",
                    "Boolean / integer operands (bool + bool is OR; the field algebra does not apply): program bool_operands is "
                    "compared on sample data only, per policy",
                    "non-finite values", "programs outside the list"],
        "stubs": ["x / y encoded as x * inv(y), inv uninterpreted", "math functions / pow uninterpreted"],
        "trusted": ["z3 (nonlinear real arithmetic)", "eval_pytato over the real algebra", "NumPy scalars for replay"],
    }
    return J, meta
