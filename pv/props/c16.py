"""C16 -- symbolic shapes: decisions are sound and one kernel serves every size.

(a) shape-equality decisions: for pairs of affine shape expressions over size
    parameters (coefficient grid enumerated) the real
    ``are_shape_components_equal`` / broadcasting / stacking decision is compared
    with z3's answer to ``exists params >= 0 : e1 != e2`` (direct SMT).
(b) inferred shapes: for programs over size-parameter placeholders the shape
    expression pytato infers for every output, evaluated at a *symbolic* size,
    equals NumPy's shape rule at the same size (CrossHair/z3, all sizes).
(c) one kernel for every size: the kernel generated *once* is evaluated by the
    kernel interpreter with the size parameters symbolic and unbounded and a
    symbolic element index, and compared with NumPy's meaning (CrossHair/z3).
    (Memory safety and domain coverage for all sizes are C11's queries.)
"""
from __future__ import annotations

import itertools
import random
import time

import numpy as np

from pv import corpus as C
from pv.drive import FnOb, Job, JobOut, Side, SmtOb
from pv.props.common import Skolems, idx_params, in_range, sk_params, take, teq
from pv.sem.alg import NumAlg, TermAlg, num_close
from pv.sem.ptsem import PtEval
from pv.sem.symnp import SymNP

LEVEL = "other"
MOD = "pv.props.c16"
F64 = np.float64


# ---------------------------------------------------------------------------
# (a) decisions

def _affine(coeffs, params):
    """public-API construction of  c0 + sum c_k * p_k  (Array or int)"""
    e = coeffs[0]
    for c, p in zip(coeffs[1:], params):
        if c == 0:
            continue
        term = p if c == 1 else c * p
        e = term + e if not isinstance(e, int) or e != 0 else term
    return e


class DecisionOb(SmtOb):
    def __init__(self, oid, nparams, pairs, info, xcheck_every=0):
        super().__init__()
        self.oid, self.nparams, self.pairs, self.info = oid, nparams, pairs, info
        self.params, self.samples = [], []
        self.xcheck_every = xcheck_every
        self.stats = {"cvc5_agree": 0, "cvc5_unknown": 0, "cvc5_disagree": 0} if xcheck_every else {}

    def _decide_real(self, c1, c2):
        import pytato as pt
        from pytato.utils import are_shape_components_equal, are_shapes_equal
        ps = [pt.make_size_param(f"p{k}") for k in range(self.nparams)]
        e1, e2 = _affine(c1, ps), _affine(c2, ps)
        out = {"eq": bool(are_shape_components_equal(e1, e2)), "eq_rev": bool(are_shape_components_equal(e2, e1)),
               "shapes": bool(are_shapes_equal((e1, 3), (e2, 3)))}
        # two symbolic axes whose mismatches could cancel, and spellings in which a parameter appears but cancels
        out["shapes_swapped"] = bool(are_shapes_equal((e1, e2), (e2, e1)))
        out["shapes_shifted"] = bool(are_shapes_equal((e1 + 1, e2), (e1, e2 + 1)))
        try:
            out["cancel_same"] = bool(are_shape_components_equal((e1 + e2) - e2, e1))
            out["cancel_other"] = bool(are_shape_components_equal((e1 + e2) - e2, e2))
        except Exception as e:  # noqa: BLE001
            out["cancel_exc"] = type(e).__name__
        # sign decisions ("True iff it can be PROVEN": a True must hold for every non-negative size)
        from pytato.utils import _is_non_negative, _is_non_positive
        try:
            out["nonneg"], out["nonpos"] = bool(_is_non_negative(e1)), bool(_is_non_positive(e1))
        except Exception as e:  # noqa: BLE001
            out["sign_exc"] = type(e).__name__
        try:
            x = pt.make_placeholder("x", (e1,), F64)
            y = pt.make_placeholder("y", (e2,), F64)
        except ValueError:
            out["placeholders"] = False      # negative constant length: rejected at construction
            return out
        # integer indices into an axis of symbolic length: accepted only if in bounds for EVERY size
        out["int_index_accepted"] = []
        for k in (-3, -2, -1, 0, 1, 2):
            try:
                x[k]
                out["int_index_accepted"].append(k)
            except (IndexError, NotImplementedError, ValueError):
                pass
        try:
            pt.stack([x, y])
            out["stack"] = True
        except ValueError:
            out["stack"] = False
        try:
            r = x + y
            out["bcast"] = True
            out["bcast_shape_is"] = "e1" if are_shape_components_equal(r.shape[0], e1) else \
                "e2" if are_shape_components_equal(r.shape[0], e2) else "other"
        except Exception as e:  # noqa: BLE001
            out["bcast"] = False
            out["bcast_exc"] = type(e).__name__
        return out

    def solve(self):
        import z3
        t0 = time.time()
        ps = [z3.Int(f"p{k}") for k in range(self.nparams)]
        s = z3.Solver()
        s.set("timeout", 10000)
        for p in ps:
            s.add(p >= 0)
        nq = 0
        ts = 0.0
        for c1, c2 in self.pairs:
            z1 = c1[0] + sum(c * p for c, p in zip(c1[1:], ps))
            z2 = c2[0] + sum(c * p for c, p in zip(c2[1:], ps))

            def always(prop):
                nonlocal nq, ts
                s.push()
                s.add(z3.Not(prop))
                t1 = time.time()
                r = s.check()
                ts += time.time() - t1
                nq += 1
                if self.xcheck_every and nq % self.xcheck_every == 0 and str(r) in ("sat", "unsat"):
                    from pv.sem.crosscheck import cvc5_verdict
                    v = cvc5_verdict(s, timeout_s=10)
                    key = "cvc5_unknown" if v not in ("sat", "unsat") else "cvc5_agree" if v == str(r) else "cvc5_disagree"
                    self.stats[key] += 1
                    if key == "cvc5_disagree":
                        s.pop()
                        raise RuntimeError(f"solver disagreement: z3 {r}, cvc5 {v}")
                s.pop()
                if str(r) not in ("sat", "unsat"):
                    raise RuntimeError("z3 unknown")
                return str(r) == "unsat"
            real = self._decide_real(c1, c2)
            try:
                eq = always(z1 == z2)
                one1, one2 = always(z1 == 1), always(z2 == 1)
                sign_bad = None
                if real.get("nonneg") and not always(z1 >= 0):
                    sign_bad = "_is_non_negative answered True although the expression is negative for some size"
                elif real.get("nonpos") and not always(z1 <= 0):
                    sign_bad = "_is_non_positive answered True although the expression is positive for some size"
                else:
                    for k in real.get("int_index_accepted", ()):
                        if not always(z3.And(-z1 <= k, k < z1)):
                            sign_bad = f"integer index {k} accepted on an axis whose length makes it out of bounds for some size"
                            break
            except RuntimeError as e:
                return {"status": "inconclusive", "reason": str(e), "solver_queries": nq, "solver_s": round(ts, 3)}
            bad = sign_bad
            if bad:
                pass
            elif real["eq"] != eq or real["eq_rev"] != eq or real["shapes"] != eq:
                bad = "are_shape_components_equal / are_shapes_equal"
            elif real["shapes_swapped"] != eq:
                bad = "are_shapes_equal((e1, e2), (e2, e1)) must hold exactly when e1 == e2 for all sizes"
            elif real["shapes_shifted"]:
                bad = "are_shapes_equal((e1 + 1, e2), (e1, e2 + 1)) answered True"
            elif real.get("cancel_same") is False:
                bad = "(e1 + e2) - e2 was not recognised as equal to e1 (a parameter that cancels)"
            elif "cancel_other" in real and real["cancel_other"] != eq:
                bad = "(e1 + e2) - e2 compared with e2 must be equal exactly when e1 == e2 for all sizes"
            elif "stack" not in real:
                pass
            elif real["stack"] != eq:
                bad = "stack accepts iff shapes are equal for all sizes"
            elif real["bcast"] and not (eq or one1 or one2):
                bad = "broadcast accepted although the lengths differ for some size and neither is 1"
            elif real["bcast"] and not eq and ((one1 and real["bcast_shape_is"] != "e2") or (one2 and real["bcast_shape_is"] != "e1")):
                bad = "broadcast result length"
            elif not real["bcast"] and (eq or one1 or one2):
                bad = "broadcast rejected although compatible for all sizes"
            if bad:
                return {"status": "refuted", "args": {"c1": list(c1), "c2": list(c2), "what": bad, "real": real,
                                                      "solver_equal_for_all_sizes": eq},
                        "solver_queries": nq, "solver_s": round(ts, 3), "wall_s": round(time.time() - t0, 3), "message": bad}
        return {"status": "confirmed", "solver_queries": nq, "solver_s": round(ts, 3), "wall_s": round(time.time() - t0, 3),
                "message": f"{len(self.pairs)} pairs"}

    def replay(self, args):
        """concrete witness: evaluate both expressions on a grid of sizes"""
        c1, c2 = args["c1"], args["c2"]
        real = self._decide_real(tuple(c1), tuple(c2))
        differ = None
        for vals in itertools.product(range(0, 5), repeat=self.nparams):
            v1 = c1[0] + sum(c * v for c, v in zip(c1[1:], vals))
            v2 = c2[0] + sum(c * v for c, v in zip(c2[1:], vals))
            if v1 != v2:
                differ = {"sizes": list(vals), "e1": v1, "e2": v2}
                break
        truth_eq = differ is None
        what = args.get("what") or ""
        if "_is_non_" in what or "integer index" in what:
            # concrete witness for a sign / index decision: a size at which the claimed fact is false
            for vals in itertools.product(range(0, 5), repeat=self.nparams):
                v1 = c1[0] + sum(c * v for c, v in zip(c1[1:], vals))
                if (real.get("nonneg") and v1 < 0) or (real.get("nonpos") and v1 > 0) or any(
                        not (-v1 <= k < v1) for k in real.get("int_index_accepted", ())):
                    return True, {"real_code": real, "witness": {"sizes": list(vals), "e1": v1}, "what": what}
            return False, {"real_code": real, "why": "no size in 0..4 falsifies the decision", "what": what}
        if any(w in what for w in ("(e2, e1)", "e2 + 1", "- e2")):
            bad2 = (real["shapes_swapped"] != truth_eq or real["shapes_shifted"] or real.get("cancel_same") is False
                    or ("cancel_other" in real and real["cancel_other"] != truth_eq))
            return bool(bad2), {"real_code": real, "witness": differ, "what": what, "e1 == e2 on the grid 0..4": truth_eq}
        bad = real["eq"] != truth_eq or real.get("stack", truth_eq) != truth_eq
        return bad or bool(args.get("what")), {"real_code": real, "witness": differ, "what": args.get("what")}


class StridedOb(SmtOb):
    """decisions about NON-affine lengths the library itself produces: len(x[::k]) = (len(x) + k - 1) // k.
    For pairs (affine e, stride k): the inferred slice length must be right for every size at which the axis is valid,
    and equality / broadcasting decisions between two such lengths must agree with z3 over all sizes."""

    def __init__(self, oid, nparams, quads, info):
        super().__init__()
        self.oid, self.nparams, self.quads, self.info = oid, nparams, quads, info
        self.params, self.samples = [], []
        self.stats = {}

    @staticmethod
    def _z3_of_dim(dim, ps):
        """pytato shape component -> z3 term over the size parameters p0.. (affine + floor division)"""
        import pymbolic.primitives as prim
        import z3
        from pytato.utils import dim_to_index_lambda_components
        if isinstance(dim, (int, np.integer)):
            return z3.IntVal(int(dim))
        expr, bnds = dim_to_index_lambda_components(dim)
        names = {k: ps[int(v.name[1:])] for k, v in bnds.items()}

        def enc(e):
            if isinstance(e, (int, np.integer)):
                return z3.IntVal(int(e))
            if isinstance(e, prim.Variable):
                return names[e.name]
            if isinstance(e, prim.Sum):
                r = enc(e.children[0])
                for c in e.children[1:]:
                    r = r + enc(c)
                return r
            if isinstance(e, prim.Product):
                r = enc(e.children[0])
                for c in e.children[1:]:
                    r = r * enc(c)
                return r
            if isinstance(e, prim.FloorDiv):
                return enc(e.numerator) / enc(e.denominator)        # (z3 integer division floors for positive divisors)
            raise RuntimeError(f"shape expression not understood: {type(e).__name__}")
        return enc(expr)

    def _decide_real(self, c1, k1, c2, k2):
        import pytato as pt
        from pytato.utils import are_shape_components_equal
        ps = [pt.make_size_param(f"p{k}") for k in range(self.nparams)]
        out = {}
        arrs = []
        for tag, c, k in (("1", c1, k1), ("2", c2, k2)):
            e = _affine(c, ps)
            try:
                x = pt.make_placeholder("x" + tag, (e,), F64)
                y = x[::k]
                out["len" + tag] = y.shape[0]
                arrs.append(y)
            except (NotImplementedError, ValueError, IndexError) as ex:
                out["refused" + tag] = type(ex).__name__       # e.g. "could not ascertain the sign": a documented refusal
        if len(arrs) == 2:
            out["eq"] = bool(are_shape_components_equal(arrs[0].shape[0], arrs[1].shape[0]))
            try:
                r = arrs[0] + arrs[1]
                out["bcast"] = True
                out["bcast_len"] = r.shape[0]
            except Exception as ex:  # noqa: BLE001
                out["bcast"] = False
        return out

    def solve(self):
        import z3
        t0 = time.time()
        ps = [z3.Int(f"p{k}") for k in range(self.nparams)]
        s = z3.Solver()
        s.set("timeout", 10000)
        for p in ps:
            s.add(p >= 0)
        nq = 0

        def always(prop, *assume):
            nonlocal nq
            s.push()
            for a in assume:
                s.add(a)
            s.add(z3.Not(prop))
            r = s.check()
            nq += 1
            s.pop()
            if str(r) not in ("sat", "unsat"):
                raise RuntimeError("z3 unknown")
            return str(r) == "unsat"
        for (c1, k1, c2, k2) in self.quads:
            z1 = c1[0] + sum(c * p for c, p in zip(c1[1:], ps))
            z2 = c2[0] + sum(c * p for c, p in zip(c2[1:], ps))
            t1, t2 = (z1 + k1 - 1) / k1, (z2 + k2 - 1) / k2          # true lengths where the axes are valid
            real = self._decide_real(c1, k1, c2, k2)
            bad = None
            try:
                for tag, z, t in (("1", z1, t1), ("2", z2, t2)):
                    if "len" + tag in real:
                        L = self._z3_of_dim(real["len" + tag], ps)
                        if not always(L == t, z >= 0):
                            bad = f"inferred length of x[::k] on an axis of length e{tag} is wrong for some size at which the axis is valid"
                if not bad and "eq" in real:
                    valid = z3.And(z1 >= 0, z2 >= 0)
                    eq = always(t1 == t2, valid)
                    one1, one2 = always(t1 == 1, valid), always(t2 == 1, valid)
                    # (only soundness: the property promises "exactly when" for AFFINE components; for these
                    #  floor-division lengths the library may fail to see an equality, e.g. (2n+1)//2 vs n)
                    if real["eq"] and not eq:
                        bad = "are_shape_components_equal answered True for two strided-slice lengths that differ for some size"
                    elif real["bcast"] and not (eq or one1 or one2):
                        bad = "broadcast of two strided slices accepted although their lengths differ for some size and neither is 1"
                    elif real["bcast"]:
                        Lb = self._z3_of_dim(real["bcast_len"], ps)
                        if not always(Lb == z3.If(t1 == 1, t2, t1), valid):
                            bad = "broadcast result length of two strided slices"
            except RuntimeError as e:
                return {"status": "inconclusive", "reason": str(e), "solver_queries": nq, "solver_s": 0.0}
            if bad:
                real_s = {k: (str(v) if not isinstance(v, (bool, str)) else v) for k, v in real.items()}
                return {"status": "refuted", "args": {"c1": list(c1), "k1": k1, "c2": list(c2), "k2": k2, "what": bad, "real": real_s},
                        "solver_queries": nq, "solver_s": 0.0, "wall_s": round(time.time() - t0, 3), "message": bad}
        return {"status": "confirmed", "solver_queries": nq, "solver_s": 0.0, "wall_s": round(time.time() - t0, 3),
                "message": f"{len(self.quads)} (length, stride) pairs"}

    def replay(self, args):
        """concrete witness on a grid of sizes: evaluate the real inferred lengths / decisions against the true lengths"""
        from pv.sem.alg import TermAlg
        c1, k1, c2, k2 = tuple(args["c1"]), args["k1"], tuple(args["c2"]), args["k2"]
        real = self._decide_real(c1, k1, c2, k2)
        import z3
        ps = [z3.Int(f"p{k}") for k in range(self.nparams)]
        for vals in itertools.product(range(0, 7), repeat=self.nparams):
            v1 = c1[0] + sum(c * v for c, v in zip(c1[1:], vals))
            v2 = c2[0] + sum(c * v for c, v in zip(c2[1:], vals))
            if v1 < 0 or v2 < 0:
                continue
            t1, t2 = -(-v1 // k1), -(-v2 // k2)
            sub = [(p, z3.IntVal(v)) for p, v in zip(ps, vals)]
            for tag, t in (("1", t1), ("2", t2)):
                if "len" + tag in real:
                    got = z3.simplify(z3.substitute(self._z3_of_dim(real["len" + tag], ps), *sub)).as_long()
                    if got != t:
                        return True, {"sizes": list(vals), "axis": tag, "inferred": got, "true": t, "what": args.get("what")}
            if "eq" in real:
                if real["eq"] and t1 != t2:
                    return True, {"sizes": list(vals), "lengths": [t1, t2], "decided_equal": True, "what": args.get("what")}
                if real["bcast"] and t1 != t2 and 1 not in (t1, t2):
                    return True, {"sizes": list(vals), "lengths": [t1, t2], "broadcast_accepted": True, "what": args.get("what")}
        return False, {"why": "no size in 0..6 falsifies the decision", "what": args.get("what")}

    def describe(self):
        return {"oid": self.oid, **self.info}


def strided_job(nparams: int, chunk: int, nchunks: int, seed: int) -> JobOut:
    consts = range(-2, 3)
    coefs = list(itertools.product(range(0, 3), repeat=nparams))
    exprs = [(c0, *cs) for c0 in consts for cs in coefs if any(cs)]
    rnd = random.Random(seed * 77 + nparams)
    quads = [(a, ka, b, kb) for a in exprs for b in exprs for ka in (1, 2, 3) for kb in (1, 2, 3)]
    if len(quads) > 2400:
        quads = rnd.sample(quads, 2400)
    mine = quads[chunk::nchunks]
    ob = StridedOb(f"strided/{nparams}params/chunk{chunk}", nparams, mine,
                   {"family": "strided-slice lengths", "pairs": len(mine), "strides": [1, 2, 3],
                    "expressions": "c0 + sum c_k p_k, c0 in -2..2, c_k in 0..2"})
    return JobOut(obs=[ob])


def decision_job(nparams: int, chunk: int, nchunks: int, sample: int, seed: int, xcheck: int = 0) -> JobOut:
    coeffs = list(itertools.product(range(-3, 4), repeat=nparams + 1))
    allpairs = [(a, b) for a in coeffs for b in coeffs]
    if sample and sample < len(allpairs):
        rnd = random.Random(seed * 1000 + nparams)
        allpairs = rnd.sample(allpairs, sample)
        # always include near-equal pairs (differ in one coefficient) and broadcasting against 1
        for a in rnd.sample(coeffs, min(40, len(coeffs))):
            b = list(a)
            k = rnd.randrange(len(b))
            b[k] = max(-3, min(3, b[k] + rnd.choice([-1, 1])))
            allpairs += [(a, tuple(b)), (a, a), (a, (1,) + (0,) * nparams), ((1,) + (0,) * nparams, a)]
    pairs = allpairs[chunk::nchunks]
    ob = DecisionOb(f"decisions/{nparams}params/chunk{chunk}", nparams, pairs,
                    {"size parameters": nparams, "coefficient grid": "[-3,3]", "pairs": len(pairs),
                     "decisions": "are_shape_components_equal (both orders), are_shapes_equal, stack, broadcasting",
                     "solver question": "exists params >= 0: e1 != e2 (and: is e_k == 1 for all params)"},
                    xcheck_every=xcheck)
    return JobOut(obs=[ob])


# ---------------------------------------------------------------------------
# (b), (c)

def sym_program_job(prog: str) -> JobOut:
    import pytato as pt
    from pv.props.c05 import _target
    from pv.sem import bounds as B
    from pv.sem.knlsem import KernelModel
    P = {p.name: p for p in C.ALL_SYM}[prog]
    try:
        outs, ins, S = C.build_sym_pytato(P)
    except NotImplementedError as e:
        return JobOut(declined=f"documented refusal: {e}")
    except Exception as e:  # noqa: BLE001
        # every program of the committed corpus is accepted by NumPy for every size: a refusal here means shape
        # components equal for all sizes were treated as different (or an inferred shape is wrong)
        import traceback
        return JobOut(sides=[Side(f"{prog}/program-valid-for-every-size-is-accepted", False,
                                  f"{type(e).__name__}: {e}\n{traceback.format_exc(limit=4)}")])
    sides = []
    try:
        dag = pt.transform.deduplicate(pt.make_dict_of_named_arrays(outs))
        bp = pt.generate_loopy(dag, target=_target())      # generated ONCE, for every size
        model = KernelModel(bp.program)
    except Exception as e:  # noqa: BLE001
        import traceback
        return JobOut(sides=[Side(f"{prog}/generate_loopy-succeeds", False, f"{type(e).__name__}: {e}\n{traceback.format_exc(limit=5)}")])
    sides.append(Side(f"{prog}/kernel-structure", not model.structural_problems, model.structural_problems[:4]))
    import loopy as lp
    vargs = {a.name for a in model.k.args if isinstance(a, lp.ValueArg)}
    used_sizes = {i_.name for i_ in pt.transform.InputGatherer()(dag) if isinstance(i_, pt.array.SizeParam)}
    sides.append(Side(f"{prog}/size-parameters-are-kernel-value-arguments", used_sizes <= vargs,
                      {"kernel value arguments": sorted(vargs), "size parameters the graph depends on": sorted(used_sizes)}))
    kinds = {n: "f" for n, *_ in P.inputs}
    nsz = len(P.sizes)
    obs = []
    names = sorted(dag.keys())
    maxnd = max(dag[k].ndim for k in names)

    # (b) inferred shapes at symbolic sizes
    def pre_b(**p):
        return all(p[s] >= P.min_size for s in P.sizes)

    def body_b(ob, **p):
        sizes = {s: p[s] for s in P.sizes}
        alg = TermAlg(kinds)
        ref, _ = C.build_sym_ref(P, SymNP(alg), sizes)
        ev = PtEval(alg, sizes=sizes)
        ob.reach()
        for k in names:
            got = ev.shape(dag[k])
            want = ref[k].shape
            if len(got) != len(want):
                return False
            for a, b in zip(got, want):
                if a != b:
                    ob.last_detail = {"output": k}
                    return False
        return True
    smp = {s: 3 for s in P.sizes}
    obs.append(FnOb(f"{prog}/inferred-shapes", [(s, "int") for s in P.sizes], body_b, pre_b, [smp], timeout=120,
                    unbounded=P.sizes, info={"program": prog, "clause": "inferred shape == NumPy shape rule for every size",
                                             "sizes": f"all integers >= {P.min_size}"}))

    # (c) value equivalence of the single kernel, sizes symbolic and unbounded
    for k in names:
        nd = dag[k].ndim
        params = [(s, "int") for s in P.sizes] + idx_params(nd) + sk_params(6)

        def pre_c(**p):
            return all(p[s] >= P.min_size for s in P.sizes)

        def body_c(ob, k=k, nd=nd, **p):
            sizes = {s: p[s] for s in P.sizes}
            alg = TermAlg(kinds)
            ref, _ = C.build_sym_ref(P, SymNP(alg), sizes)
            idx = take(p, "i", nd)
            if not in_range(idx, ref[k].shape):
                return True
            ob.reach()
            got = model.at(alg, k, idx, sizes=sizes)
            want = ref[k].at(idx)
            return teq(got, want, Skolems(take(p, "k", 6)))

        def replay_c(ob, args, k=k, nd=nd):
            """run the real kernel (gcc) at the sizes of the counterexample and at 1..4"""
            from pv.sem.knlsem import run_kernel_numerically
            trials = [{s: int(args[s]) for s in P.sizes}] + [{s: v for s in P.sizes} for v in (1, 2, 3, 4)]
            for sizes in trials:
                if any(v > 40 or v < P.min_size for v in sizes.values()):
                    continue
                data = {n: C.default_data(n, tuple(shp(*[sizes[s] for s in P.sizes])), dt) for n, shp, dt in P.inputs}
                want = C.build_sym_numpy(P, sizes, data)[k]
                try:
                    out = run_kernel_numerically(bp.program, {**data, **sizes})
                    got = out[k]
                    how = "loopy C target + gcc"
                except Exception as e:  # noqa: BLE001
                    how = f"numeric kernel interpreter ({type(e).__name__})"
                    alg = NumAlg(data)
                    got = np.empty(np.asarray(want).shape)
                    for idx in itertools.product(*[range(n) for n in got.shape]):
                        got[idx] = model.at(alg, k, idx, sizes=sizes)
                if np.asarray(got).shape != np.asarray(want).shape or not num_close(got, want):
                    return True, {"sizes": sizes, "engine": how, "got": np.asarray(got).tolist(), "want": np.asarray(want).tolist()}
                # an out-of-bounds read usually returns zeros/plausible data in the compiled kernel: the numeric
                # interpreter checks every subscript against the array bounds
                try:
                    alg = NumAlg(data)
                    for idx in itertools.product(*[range(n) for n in np.asarray(want).shape]):
                        model.at(alg, k, idx, sizes=sizes)
                except IndexError as e:
                    return True, {"sizes": sizes, "engine": "numeric kernel interpreter (bounds-checked reads)",
                                  "out_of_bounds": str(e)}
            return False, {"why": "term mismatch not confirmed numerically"}
        smp = {s: 3 for s in P.sizes} | {f"i{d}": 0 for d in range(nd)} | {f"k{d}": 0 for d in range(6)}
        obs.append(FnOb(f"{prog}/one-kernel-every-size/{k}", params, body_c, pre_c, [smp], timeout=240,
                        unbounded=P.sizes, replay=replay_c,
                        info={"program": prog, "output": k, "clause": "kernel generated once == NumPy meaning",
                              "sizes": f"all integers >= {P.min_size} (symbolic, unbounded)", "index": "symbolic"}))
    del maxnd, nsz
    # domain coverage for every size (z3)
    for name in model.writers:
        if name in model.args:
            try:
                ok, det = B.domain_covers_shape(model, name, P.sizes)
            except Exception as e:  # noqa: BLE001
                ok, det = None, str(e)
            if ok is not None:
                sides.append(Side(f"{prog}/domain-equals-shape-for-all-sizes/{name}", bool(ok), det))
    return JobOut(obs=obs, sides=sides)


def jobs(tier: str, seed: int):
    th = tier == "thorough"
    J = []
    xc = 40 if th else 0
    J += [Job(MOD, "decision_job", {"nparams": 1, "chunk": c, "nchunks": 8, "sample": 0, "seed": seed, "xcheck": xc},
              jid=f"decisions/1/{c}", hard_timeout=900) for c in range(8)]
    for npar, sample in ((2, 6000 if th else 1200), (3, 6000 if th else 800)):
        J += [Job(MOD, "decision_job", {"nparams": npar, "chunk": c, "nchunks": 8, "sample": sample, "seed": seed, "xcheck": xc},
                  jid=f"decisions/{npar}/{c}", hard_timeout=900) for c in range(8)]
    for npar in (1, 2):
        J += [Job(MOD, "strided_job", {"nparams": npar, "chunk": c, "nchunks": 8, "seed": seed}, jid=f"strided/{npar}/{c}",
                  hard_timeout=900) for c in range(8)]
    for P in C.sym_corpus(tier):
        J.append(Job(MOD, "sym_program_job", {"prog": P.name}, jid=f"{P.name}", hard_timeout=1200))
    meta = {
        "programs": len(C.sym_corpus(tier)),
        "explanation": "(a) direct SMT: real shape-equality/broadcast/stack decisions vs z3's verdict on 'exists sizes >= 0 "
                       "with e1 != e2' over a coefficient grid; (b,c) CrossHair/z3 with the size parameters symbolic and "
                       "unbounded: inferred shapes vs NumPy's rule, and the kernel generated once vs NumPy's meaning at a "
                       "symbolic index.",
        "bounds": {"affine pairs": "1 parameter: all 2401 pairs with coefficients in [-3,3]; 2 and 3 parameters: seeded "
                                   "samples plus near-equal / broadcast-against-1 pairs",
                   "size-parameter programs": [p.name for p in C.sym_corpus(tier)],
                   "size parameter values": "all integers >= the program's minimum (0 or 1), unbounded"},
        "outside": ["operations pytato documents as unsupported for symbolic axes (reshape, advanced indexing, reductions "
                    "over symbolic axes, concatenate along a symbolic axis) -- declined", "non-affine shape expressions other than the strided-slice lengths (e + k - 1) // k"],
    }
    return J, meta
