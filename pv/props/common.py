"""Helpers shared by property modules."""
from __future__ import annotations

import numpy as np

from pv.drive import FnOb, HarnessError, Job  # noqa: F401
from pv.sem.alg import Skolems, TermAlg, dtype_kind, teq  # noqa: F401
from pv.sem.symnp import SymNP

# exceptions by which the real code *declines* an input (documented refusals)
REFUSALS = (ValueError, TypeError, IndexError, NotImplementedError)


def refusal_types():
    from pytato.diagnostic import CannotBeLoweredToIndexLambda, CannotBroadcastError
    return (*REFUSALS, CannotBroadcastError, CannotBeLoweredToIndexLambda)


def in_range(idx, shape):
    for i, n in zip(idx, shape):
        if not (0 <= i < n):
            return False
    return True


def idx_params(n):
    return [(f"i{k}", "int") for k in range(n)]


def sk_params(n):
    return [(f"k{k}", "int") for k in range(n)]


def take(p, prefix, n):
    return tuple(p[f"{prefix}{k}"] for k in range(n))


def term_xp(kinds):
    alg = TermAlg(kinds)
    return alg, SymNP(alg)


def kinds_of(**dtypes):
    return {k: dtype_kind(np.dtype(v)) for k, v in dtypes.items()}
