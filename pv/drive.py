"""Obligations, the CrossHair driver, the process pool and candidate replay.

An *obligation* is a Python predicate ``body(**params)`` over symbolic
``int``/``bool``/``Optional[int]`` parameters, guarded by ``pre(**params)``.
CrossHair executes ``body`` symbolically (it runs the real pytato functions on
symbolic values, or one of our artifact interpreters over what the real code
emitted) and z3 decides every branch; "Confirmed over all paths" is the only
verdict counted as discharged.

A *job* is ``(module, factory, kwargs)``; the factory runs in a worker process,
does the concrete prologue (real code run concretely, e.g. ``generate_loopy``)
and returns a :class:`JobOut`.
"""
from __future__ import annotations

import ast
import importlib
import linecache
import multiprocessing as mp
import os
import sys
import time
import traceback
from dataclasses import dataclass, field
from typing import Any, Callable

from pv import env

EXIT_OK, EXIT_VIOLATION, EXIT_HARNESS = 0, 1, 3

_TYPES = {"int": "int", "bool": "bool", "optint": "Optional[int]"}


class HarnessError(Exception):
    """Our own model/oracle is wrong or a precondition of the harness failed."""


class Ob:
    """Base class of an obligation.  Subclasses (or instances built with
    :func:`ob`) provide ``oid``, ``params``, ``pre``, ``body``, ``samples``."""
    oid: str = "?"
    params: list = []
    samples: list = []
    timeout: float = 60.0
    path_timeout: float = 30.0
    unbounded: tuple = ()          # names of parameters whose domain is all of Z
    kind: str = "sym"              # informational
    info: dict = {}
    finding_keys: tuple = ()       # known-finding keys whose predicate is excluded

    def __init__(self):
        self.counters = {"paths": 0, "reached": 0}

    def pre(self, **a) -> bool:
        return True

    def body(self, **a) -> bool:
        raise NotImplementedError

    def reach(self):
        self.counters["reached"] += 1

    # replay: returns (reproduced, detail).  Default: re-run the harness
    # concretely on the real code; harnesses whose verdict depends on an
    # abstraction override this with a numeric replay.
    def replay(self, args: dict):
        try:
            if not self.pre(**args):
                return False, {"why": "precondition false on concrete arguments"}
            ok = self.body(**args)
        except Exception as e:  # noqa: BLE001
            return True, {"exception": f"{type(e).__name__}: {e}",
                          "traceback": traceback.format_exc(limit=8)}
        return (not ok), {"body_returned": bool(ok), "detail": dict(getattr(self, "last_detail", {}) or {})}

    def describe(self) -> dict:
        return {"oid": self.oid, "params": [f"{n}:{t}" for n, t in self.params],
                "unbounded": list(self.unbounded), **self.info}


class FnOb(Ob):
    def __init__(self, oid, params, body, pre=None, samples=(), timeout=60.0,
                 unbounded=(), info=None, replay=None, path_timeout=30.0):
        super().__init__()
        self.oid, self.params = oid, list(params)
        self._body, self._pre = body, pre
        self.samples = list(samples)
        self.timeout, self.unbounded = timeout, tuple(unbounded)
        self.info = info or {}
        self._replay = replay
        self.path_timeout = path_timeout

    def pre(self, **a):
        return True if self._pre is None else self._pre(**a)

    def body(self, **a):
        return self._body(self, **a)

    def replay(self, args):
        if self._replay is not None:
            return self._replay(self, args)
        return super().replay(args)


class SmtOb(Ob):
    """An obligation discharged by a direct SMT query (z3, optionally cvc5 as a
    second opinion) instead of CrossHair.  ``solve()`` returns a dict with
    ``status`` in {confirmed (unsat), refuted (sat, with ``args`` = model),
    inconclusive} plus solver statistics."""
    kind = "smt"

    def solve(self) -> dict:
        raise NotImplementedError


@dataclass
class Side:
    """A concrete assertion evaluated in the prologue (not a solver verdict)."""
    sid: str
    ok: bool
    detail: Any = None
    finding_key: str | None = None   # set if this failure matches a known finding


@dataclass
class JobOut:
    obs: list = field(default_factory=list)
    sides: list = field(default_factory=list)
    declined: str | None = None      # real code refused the case (documented)
    info: dict = field(default_factory=dict)


@dataclass
class Job:
    module: str
    factory: str
    kwargs: dict
    jid: str = ""
    hard_timeout: float = 900.0

    def build(self) -> JobOut:
        mod = importlib.import_module(self.module)
        return getattr(mod, self.factory)(**self.kwargs)


# ---------------------------------------------------------------------------
# function tracing ("functions encoded" in evidence)

class FuncTrace:
    def __init__(self):
        self.seen = set()
        self.prefix = os.path.join(env.REPO, "pytato") + os.sep

    def __enter__(self):
        self.old = sys.getprofile()
        sys.setprofile(self._prof)
        return self

    def _prof(self, frame, event, arg):
        if event == "call":
            co = frame.f_code
            fn = co.co_filename
            if fn.startswith(self.prefix):
                self.seen.add(f"{fn[len(self.prefix):]}:{co.co_qualname}")

    def __exit__(self, *a):
        sys.setprofile(self.old)


# ---------------------------------------------------------------------------
# CrossHair

_SOLVER = {"t": 0.0, "n": 0}
_patched = False


def _patch_z3_timing():
    global _patched
    if _patched:
        return
    import z3
    orig = z3.Solver.check

    def check(self, *a, **k):
        t0 = time.perf_counter()
        try:
            return orig(self, *a, **k)
        finally:
            _SOLVER["t"] += time.perf_counter() - t0
            _SOLVER["n"] += 1
    z3.Solver.check = check
    _patched = True
    # Never "short-circuit" calls to contract-carrying functions (CrossHair's own
    # hash() patch has a contract): replacing the call by a fresh symbolic result
    # is an over-approximation that (a) makes a Python-level __hash__ called from
    # C return a non-int (spurious TypeError) and (b) adds a sibling path per
    # call site.  Always executing the real body is the precise semantics.
    import crosshair.core as cc
    orig_cs = cc.consider_shortcircuit

    def consider_shortcircuit(fn, sig, bound, subconditions, allow_interpretation):
        if allow_interpretation:
            return None
        return orig_cs(fn, sig, bound, subconditions, allow_interpretation)
    cc.consider_shortcircuit = consider_shortcircuit
    from pv.chfix import apply_pytato_stubs
    apply_pytato_stubs()


_hcount = [0]


def _make_harness(obl: Ob):
    _hcount[0] += 1
    fname = f"<verif-harness-{os.getpid()}-{_hcount[0]}>"
    names = [n for n, _ in obl.params]
    sig = ", ".join(f"{n}: {_TYPES[t]}" for n, t in obl.params)
    kw = ", ".join(f"{n}={n}" for n in names)
    src = (
        "from typing import Optional\n"
        f"def h({sig}) -> bool:\n"
        '    """\n'
        f"    pre: _OB.pre({kw})\n"
        "    post: _\n"
        '    """\n'
        '    _OB.counters["paths"] += 1\n'
        f"    return _OB.body({kw})\n")
    linecache.cache[fname] = (len(src), None, src.splitlines(True), fname)
    modname = f"_verif_h{_hcount[0]}"
    import types
    m = types.ModuleType(modname)
    m.__dict__["_OB"] = obl
    sys.modules[modname] = m
    exec(compile(src, fname, "exec"), m.__dict__)
    return m.h


def _parse_call(message: str, obl: Ob):
    k = message.find("when calling h(")
    if k < 0:
        return None
    s = message[k + len("when calling "):]
    depth = 0
    end = None
    for i, ch in enumerate(s):
        if ch == "(":
            depth += 1
        elif ch == ")":
            depth -= 1
            if depth == 0:
                end = i + 1
                break
    if end is None:
        return None
    try:
        call = ast.parse(s[:end], mode="eval").body
        names = [n for n, _ in obl.params]
        out = {}
        for n, a in zip(names, call.args):
            out[n] = ast.literal_eval(a)
        for kwd in call.keywords:
            out[kwd.arg] = ast.literal_eval(kwd.value)
        return out
    except Exception:  # noqa: BLE001
        return None


def run_crosshair(obl: Ob) -> dict:
    from crosshair.core_and_libs import analyze_function, run_checkables
    from crosshair.options import AnalysisKind, AnalysisOptionSet
    from crosshair.statespace import MessageType
    _patch_z3_timing()
    h = _make_harness(obl)
    res = {"status": "inconclusive", "reason": "", "args": None, "message": ""}
    for attempt in range(2):
        obl.counters["paths"] = 0
        obl.counters["reached"] = 0
        s0, n0 = _SOLVER["t"], _SOLVER["n"]
        t0 = time.time()
        opts = AnalysisOptionSet(
            per_condition_timeout=obl.timeout, per_path_timeout=obl.path_timeout,
            analysis_kind=[AnalysisKind.PEP316], report_all=True,
            max_uninteresting_iterations=10 ** 9)
        msgs = list(run_checkables(analyze_function(h, opts)))
        res.update(wall_s=round(time.time() - t0, 3),
                   solver_s=round(_SOLVER["t"] - s0, 3),
                   solver_queries=_SOLVER["n"] - n0,
                   paths=obl.counters["paths"], reached=obl.counters["reached"])
        states = [(m.state, m.message) for m in msgs]
        res["message"] = "; ".join(f"{s.name}: {m}" for s, m in states)[:600]
        if any("NotDeterministic" in (m or "") for _, m in states) and attempt == 0:
            continue
        break
    fails = [(s, m) for s, m in states
             if s in (MessageType.POST_FAIL, MessageType.EXEC_ERR, MessageType.POST_ERR)]
    if any("NotDeterministic" in (m or "") for _, m in states):
        res.update(status="inconclusive", reason="non-deterministic path")
    elif fails:
        args = None
        for s, m in fails:
            args = _parse_call(m, obl)
            if args is not None:
                break
        if args is None:
            res.update(status="inconclusive", reason="counterexample not parseable")
        else:
            res.update(status="refuted", args=args)
    elif states and all(s == MessageType.CONFIRMED for s, _ in states):
        if obl.counters["reached"] == 0:
            res.update(status="inconclusive", reason="vacuous: final comparison never reached")
        else:
            res.update(status="confirmed")
    elif any(s == MessageType.PRE_UNSAT for s, _ in states):
        res.update(status="inconclusive", reason="vacuous: unable to meet precondition")
    elif any(s == MessageType.CANNOT_CONFIRM for s, _ in states):
        res.update(status="inconclusive", reason="not confirmed within budget")
    else:
        res.update(status="inconclusive", reason="no verdict: " + res["message"][:200])
    return res


# ---------------------------------------------------------------------------
# worker

def _jsonable(x):
    import numpy as np
    if isinstance(x, dict):
        return {str(k): _jsonable(v) for k, v in x.items()}
    if isinstance(x, (list, tuple, set, frozenset)):
        return [_jsonable(v) for v in x]
    if isinstance(x, (np.integer,)):
        return int(x)
    if isinstance(x, (np.floating,)):
        return float(x)
    if isinstance(x, (str, int, float, bool)) or x is None:
        return x
    return repr(x)


def _run_ob(obl: Ob, funcs: set, no_solver=False) -> dict:
    r = {"oid": obl.oid, "describe": _jsonable(obl.describe()), "unbounded": list(obl.unbounded)}
    # 1. concrete validation of the harness on its own samples
    with FuncTrace() as ft:
        for s in obl.samples:
            obl.counters["reached"] = 0
            try:
                if not obl.pre(**s):
                    raise HarnessError(f"sample {s} violates precondition of {obl.oid}")
                ok = obl.body(**s)
            except HarnessError:
                raise
            except Exception as e:  # noqa: BLE001
                r.update(status="refuted", args=s, message=f"sample raised {type(e).__name__}: {e}",
                         wall_s=0.0, solver_s=0.0, solver_queries=0, paths=1, reached=0)
                funcs |= ft.seen
                return r
            if ok and obl.counters["reached"] == 0 and getattr(obl, "samples_must_reach", True):
                raise HarnessError(f"sample {s} of {obl.oid} does not reach the final comparison")
            if not ok:
                r.update(status="refuted", args=s, message="sample arguments falsify the obligation",
                         wall_s=0.0, solver_s=0.0, solver_queries=0, paths=1, reached=obl.counters["reached"])
                funcs |= ft.seen
                return r
    funcs |= ft.seen
    r["funcs"] = sorted(ft.seen)
    if no_solver:
        r.update(status="inconclusive", reason="solver disabled")
        return r
    if isinstance(obl, SmtOb):
        t0 = time.time()
        res = obl.solve()
        res.setdefault("wall_s", round(time.time() - t0, 3))
        res.setdefault("paths", 0)
        res.setdefault("reached", 1)
        res.setdefault("message", "")
        r.update(res)
        r["describe"] = _jsonable(obl.describe())
        if getattr(obl, "stats", None):
            r["stats"] = _jsonable(obl.stats)
        return r
    res = run_crosshair(obl)
    # A counterexample that does not reproduce against the real code is never reported -- but it must not end the
    # search either (typically a degenerate corner, e.g. all axis lengths 1, where two different subscripts read the
    # same cell): exclude its parameter region and ask the solver again, a few times.
    import re as _re
    excluded, retries = [], 0
    orig_pre = obl.pre
    while (res.get("status") == "refuted" and isinstance(res.get("args"), dict) and getattr(obl, "_replay", None) is not None
           and retries < 4):
        try:
            rep, _ = obl.replay(res["args"])
        except Exception:  # noqa: BLE001
            break
        if rep:
            break
        cand = res["args"]
        keys = [k for k in cand if not _re.match(r"^[ik]\d+$", k)] or [k for k in cand if _re.match(r"^i\d+$", k)]
        if not keys:
            break
        excluded.append({k: cand[k] for k in keys})
        retries += 1

        def pre2(_ex=tuple(excluded), _keys=tuple(keys), **p):
            if not orig_pre(**p):
                return False
            for ex in _ex:
                if all(p[k] == ex[k] for k in _keys):
                    return False
            return True
        obl.pre = pre2
        nxt = run_crosshair(obl)
        for k in ("wall_s", "solver_s", "solver_queries", "paths"):
            nxt[k] = round(nxt.get(k, 0) + res.get(k, 0), 3) if isinstance(nxt.get(k, 0), float) or isinstance(res.get(k, 0), float) \
                else nxt.get(k, 0) + res.get(k, 0)
        if nxt.get("status") == "confirmed":
            # every remaining region holds; the excluded candidates did not reproduce: inconclusive, as before
            res["retries_after_unreproduced_candidates"] = retries
            break
        res = nxt
        res["retries_after_unreproduced_candidates"] = retries
    obl.pre = orig_pre
    r.update(res)
    if getattr(obl, "stats", None):
        r["stats"] = _jsonable(obl.stats)
    return r


def _worker(job: Job, conn):
    t0 = time.time()
    out = {"jid": job.jid, "obs": [], "sides": [], "declined": None, "error": None, "info": {}}
    funcs: set = set()
    try:
        with FuncTrace() as ft:
            jo = job.build()
        funcs |= ft.seen
        out["declined"] = jo.declined
        out["info"] = _jsonable(jo.info)
        out["sides"] = [{"sid": s.sid, "ok": bool(s.ok), "detail": _jsonable(s.detail),
                         "finding_key": s.finding_key} for s in jo.sides]
        for obl in jo.obs:
            out["obs"].append(_run_ob(obl, funcs))
    except BaseException as e:  # noqa: BLE001
        out["error"] = f"{type(e).__name__}: {e}\n{traceback.format_exc(limit=12)}"
    out["funcs"] = sorted(funcs)
    out["wall_s"] = round(time.time() - t0, 3)
    try:
        conn.send(out)
    finally:
        conn.close()


def _replay_worker(job: Job, oid: str, args: dict, conn):
    try:
        jo = job.build()
        for obl in jo.obs:
            if obl.oid == oid:
                rep, detail = obl.replay(args)
                conn.send({"reproduced": bool(rep), "detail": _jsonable(detail)})
                break
        else:
            conn.send({"reproduced": False, "detail": {"why": f"obligation {oid} not rebuilt"}})
    except BaseException as e:  # noqa: BLE001
        conn.send({"reproduced": False, "error": f"{type(e).__name__}: {e}\n{traceback.format_exc(limit=8)}"})
    finally:
        conn.close()


def replay_in_fresh_process(job: Job, oid: str, args: dict, timeout=300.0) -> dict:
    ctx = mp.get_context("fork")
    a, b = ctx.Pipe(duplex=False)
    p = ctx.Process(target=_replay_worker, args=(job, oid, args, b))
    p.start()
    b.close()
    res = {"reproduced": False, "error": "replay timed out"}
    if a.poll(timeout):
        try:
            res = a.recv()
        except EOFError:
            res = {"reproduced": True, "detail": {"why": "replay process crashed"}}
    p.kill() if p.is_alive() else None
    p.join()
    return res


def run_jobs(jobs: list, nproc: int | None = None, progress: Callable | None = None) -> list:
    """Run jobs in forked worker processes (one process per job)."""
    nproc = nproc or env.NPROC
    ctx = mp.get_context("fork")
    pending = list(enumerate(jobs))
    running = {}
    results: list = [None] * len(jobs)
    while pending or running:
        while pending and len(running) < nproc:
            i, job = pending.pop(0)
            a, b = ctx.Pipe(duplex=False)
            p = ctx.Process(target=_worker, args=(job, b))
            p.start()
            b.close()
            running[i] = (p, a, time.time(), job)
        done = []
        import multiprocessing.connection as mpc
        conns = {a: i for i, (p, a, t, j) in running.items()}
        ready = mpc.wait(list(conns), timeout=1.0)
        for a in ready:
            i = conns[a]
            p, _, t, job = running[i]
            try:
                results[i] = a.recv()
            except EOFError:
                results[i] = {"jid": job.jid, "obs": [], "sides": [], "declined": None, "funcs": [],
                              "error": f"worker died (exit {p.exitcode})", "wall_s": time.time() - t}
            done.append(i)
        now = time.time()
        for i, (p, a, t, job) in running.items():
            if i not in done and now - t > job.hard_timeout:
                p.kill()
                results[i] = {"jid": job.jid, "obs": [], "sides": [], "declined": None, "funcs": [],
                              "error": None, "timeout": True, "wall_s": now - t}
                done.append(i)
        for i in done:
            p, a, t, job = running.pop(i)
            p.join()
            a.close()
            if progress:
                progress(job, results[i])
    return results
