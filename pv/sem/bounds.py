"""C11 / C16: array accesses of a generated kernel as z3 queries.

``collect(model)`` walks every instruction (substitution rules are expanded at
their call sites) and returns one :class:`Access` per array subscript axis,
together with the inames in scope, the guards on the path (``If`` conditions)
and the reduction inames opened on the way.  ``check(model, access)`` asks z3
whether some valuation of loop indices and size parameters (>= 0) inside the
iteration domain and under the guards puts the subscript outside
``[0, shape_k)``.
"""
from __future__ import annotations

import time
from dataclasses import dataclass, field

import pymbolic.primitives as p
import z3

from pv.sem.knlsem import KernelUnsupported


@dataclass
class Access:
    insn: str
    array: str
    axis: int
    index: object            # pymbolic expr
    extent: object           # pymbolic expr / int
    inames: frozenset
    guards: tuple            # ((pymbolic cond, polarity), ...)
    write: bool = False
    env: dict = field(default_factory=dict)    # substitution-rule formals -> actual exprs


class _Enc:
    """pymbolic -> z3 (ints); array reads and unknown names become fresh ints"""

    def __init__(self, model):
        self.m = model
        self.vars = {}
        self.fresh = 0
        self.data_dependent = False
        self.temp_stack = []

    def var(self, name):
        if name not in self.vars:
            self.vars[name] = z3.Int(name)
        return self.vars[name]

    def opaque(self, tag="d"):
        self.fresh += 1
        self.data_dependent = True
        return z3.Int(f"__{tag}{self.fresh}")

    def enc(self, e, env):
        import numpy as np
        if isinstance(e, (bool, np.bool_)):
            return z3.IntVal(1 if e else 0)
        if isinstance(e, (int, np.integer)):
            return z3.IntVal(int(e))
        if isinstance(e, (float, np.floating)):
            if float(e) == int(e):
                return z3.IntVal(int(e))
            return self.opaque("f")
        if isinstance(e, p.Variable):
            if e.name in env:
                v = env[e.name]
                return v if isinstance(v, z3.ExprRef) else self.enc(v, {})
            return self.name(e.name)
        if isinstance(e, p.Sum):
            r = self.enc(e.children[0], env)
            for c in e.children[1:]:
                r = r + self.enc(c, env)
            return r
        if isinstance(e, p.Product):
            r = self.enc(e.children[0], env)
            for c in e.children[1:]:
                r = r * self.enc(c, env)
            return r
        if isinstance(e, p.FloorDiv):
            return self.enc(e.numerator, env) / self.enc(e.denominator, env)
        if isinstance(e, p.Remainder):
            return self.enc(e.numerator, env) % self.enc(e.denominator, env)
        if isinstance(e, p.If):
            return z3.If(self.cond(e.condition, env), self.enc(e.then, env), self.enc(e.else_, env))
        if isinstance(e, p.Subscript):
            return self.opaque("rd")
        if isinstance(e, (p.Min, p.Max)):
            vals = [self.enc(c, env) for c in e.children]
            r = vals[0]
            for v in vals[1:]:
                r = z3.If(r <= v, r, v) if isinstance(e, p.Min) else z3.If(r >= v, r, v)
            return r
        try:
            from loopy.symbolic import TypeCast as LpTypeCast
            from pytato.scalar_expr import TypeCast
            if isinstance(e, TypeCast):
                return self.enc(e.inner_expr, env)
            if isinstance(e, LpTypeCast):
                return self.enc(e.child, env)
        except ImportError:
            pass
        return self.opaque("x")

    def name(self, nm):
        """iname / size parameter / scalar temporary"""
        m = self.m
        if nm in m.writers and nm in m.temps and m.temps[nm].shape == () and nm not in self.temp_stack:
            # scalar temporary (reduction bound): resolve through its defining instruction
            ws = m.writers[nm]
            if len(ws) == 1 and hasattr(ws[0], "expression"):
                self.temp_stack.append(nm)
                try:
                    return self.enc(ws[0].expression, {})
                finally:
                    self.temp_stack.pop()
        return self.var(nm)

    def cond(self, c, env):
        if isinstance(c, (bool,)):
            return z3.BoolVal(c)
        if isinstance(c, p.Comparison):
            l, r = self.enc(c.left, env), self.enc(c.right, env)
            return {"==": l == r, "!=": l != r, "<": l < r, "<=": l <= r, ">": l > r, ">=": l >= r}[c.operator]
        if isinstance(c, p.LogicalAnd):
            return z3.And(*[self.cond(x, env) for x in c.children])
        if isinstance(c, p.LogicalOr):
            return z3.Or(*[self.cond(x, env) for x in c.children])
        if isinstance(c, p.LogicalNot):
            return z3.Not(self.cond(c.child, env))
        self.fresh += 1
        self.data_dependent = True
        return z3.Bool(f"__c{self.fresh}")


def _walk(model, expr, insn_id, inames, guards, env, out, depth=0):
    from loopy.symbolic import Reduction as LpReduction
    from pytato.scalar_expr import Reduce
    if depth > 100:
        raise KernelUnsupported("expression depth")
    if isinstance(expr, p.Subscript) and isinstance(expr.aggregate, p.Variable):
        name = expr.aggregate.name
        shape = model.shape_of(name)
        if shape is not None and len(shape) == len(expr.index_tuple):
            for k, (ix, n) in enumerate(zip(expr.index_tuple, shape)):
                out.append(Access(insn_id, name, k, ix, n, frozenset(inames), tuple(guards), env=dict(env)))
        elif name in model.subst:
            pass
        for ix in expr.index_tuple:
            _walk(model, ix, insn_id, inames, guards, env, out, depth + 1)
        return
    if isinstance(expr, p.Call):
        fn = expr.function
        nm = getattr(fn, "name", None)
        if nm is None and hasattr(fn, "function"):
            nm = getattr(fn.function, "name", None)
        if nm in model.subst:
            rule = model.subst[nm]
            # expand at the call site: formals -> actuals (actuals are in the caller's env)
            new_env = dict(env)
            for formal, actual in zip(rule.arguments, expr.parameters):
                new_env[formal] = ("expr", actual, dict(env))
            _walk(model, rule.expression, insn_id, inames, guards, new_env, out, depth + 1)
        for a in expr.parameters:
            _walk(model, a, insn_id, inames, guards, env, out, depth + 1)
        return
    if isinstance(expr, p.If):
        _walk(model, expr.condition, insn_id, inames, guards, env, out, depth + 1)
        _walk(model, expr.then, insn_id, inames, guards + [(expr.condition, True, dict(env))], env, out, depth + 1)
        _walk(model, expr.else_, insn_id, inames, guards + [(expr.condition, False, dict(env))], env, out, depth + 1)
        return
    if isinstance(expr, LpReduction):
        _walk(model, expr.expr, insn_id, list(inames) + list(expr.inames), guards, env, out, depth + 1)
        return
    if isinstance(expr, Reduce):
        raise KernelUnsupported("pytato Reduce inside a kernel")
    if isinstance(expr, p.ExpressionNode):
        import dataclasses
        for f in dataclasses.fields(expr):
            v = getattr(expr, f.name)
            if isinstance(v, p.ExpressionNode):
                _walk(model, v, insn_id, inames, guards, env, out, depth + 1)
            elif isinstance(v, tuple):
                for x in v:
                    if isinstance(x, p.ExpressionNode):
                        _walk(model, x, insn_id, inames, guards, env, out, depth + 1)


def collect(model):
    import loopy as lp
    out = []
    for insn in model.k.instructions:
        if not isinstance(insn, lp.Assignment):
            continue
        inames = list(insn.within_inames)
        a = insn.assignee
        if isinstance(a, p.Subscript):
            shape = model.shape_of(a.aggregate.name)
            if shape is not None:
                for k, (ix, n) in enumerate(zip(a.index_tuple, shape)):
                    out.append(Access(insn.id, a.aggregate.name, k, ix, n, frozenset(inames), (), write=True))
        _walk(model, insn.expression, insn.id, inames, [], {}, out)
    return out


def _resolve_env(enc, env):
    """substitution-rule environment -> name -> z3 term"""
    out = {}
    for k, v in env.items():
        if isinstance(v, tuple) and v and v[0] == "expr":
            out[k] = enc.enc(v[1], _resolve_env(enc, v[2]))
        else:
            out[k] = v
    return out


def check(model, acc: Access, size_params=(), timeout_ms=20000, xcheck=False):
    """-> dict(status=safe|unsafe|unknown|data_dependent, model=..., solver_s=...)"""
    enc = _Enc(model)
    s = z3.Solver()
    s.set("timeout", timeout_ms)
    env = _resolve_env(enc, acc.env)
    # iteration domain of every iname in scope
    for co, is_eq in model.domain_constraints(acc.inames):
        t = z3.IntVal(0)
        for k, v in co.items():
            t = t + (v if k == 1 else v * enc.name(k))
        s.add(t == 0 if is_eq else t >= 0)
    for g in acc.guards:
        cond, pol, genv = g
        c = enc.cond(cond, _resolve_env(enc, genv))
        s.add(c if pol else z3.Not(c))
    idx = enc.enc(acc.index, env)
    ext = enc.enc(acc.extent, {})
    for sp in size_params:
        s.add(enc.var(sp) >= 0)
    # kernel assumptions (loopy 'assumptions' are an isl set over parameters)
    try:
        for c in model.k.assumptions.get_constraints() if hasattr(model.k.assumptions, "get_constraints") else []:
            co = {k: int(str(v)) for k, v in c.get_coefficients_by_name().items() if int(str(v)) != 0}
            t = z3.IntVal(0)
            for k, v in co.items():
                t = t + (v if k == 1 else v * enc.name(k))
            s.add(t == 0 if c.is_equality() else t >= 0)
    except Exception:  # noqa: BLE001
        pass
    feasible_t0 = time.time()
    s.push()
    s.add(z3.Or(idx < 0, idx >= ext))
    r = s.check()
    dt = time.time() - feasible_t0
    res = {"solver_s": round(dt, 4), "data_dependent": enc.data_dependent}
    if str(r) == "unsat":
        res["status"] = "safe"
    elif str(r) == "sat":
        m = s.model()
        res["model"] = {str(d): str(m[d]) for d in m.decls() if not str(d).startswith("__")}
        res["index_value"], res["extent_value"] = str(m.eval(idx, model_completion=True)), str(m.eval(ext, model_completion=True))
        res["status"] = "data_dependent" if enc.data_dependent else "unsafe"
    else:
        res["status"] = "unknown"
    if xcheck and str(r) in ("sat", "unsat"):
        from pv.sem.crosscheck import cvc5_verdict
        v = cvc5_verdict(s)
        res["cvc5"] = v
        if v in ("sat", "unsat") and v != str(r):
            res["status"] = "unknown"
            res["disagreement"] = f"z3 {r} vs cvc5 {v}"
    s.pop()
    return res


def domain_covers_shape(model, name, size_params=()):
    """writer's assignee inames range exactly over the declared shape:
    forall idx: idx in shape <=> exists other-inames: (idx, others) in domain.
    Returns (ok, detail).  Uses the per-iname bounds (lo, hi) read off ISL."""
    import pymbolic.primitives as p
    ws = model.writers.get(name)
    if not ws or len(ws) != 1:
        return None, "no single writer"
    a = ws[0].assignee
    shape = model.shape_of(name)
    if not isinstance(a, p.Subscript):
        return (shape == ()), "scalar"
    enc = _Enc(model)
    s = z3.Solver()
    s.set("timeout", 20000)
    for sp in size_params:
        s.add(enc.var(sp) >= 0)
    dis = []
    for v, n in zip(a.index_tuple, shape):
        lo, hi = model.iname_bounds(v.name)
        lo, hi, n = enc.enc(lo, {}), enc.enc(hi, {}), enc.enc(n, {})
        # same interval unless both are empty
        dis.append(z3.And(z3.Or(lo != 0, hi != n), z3.Or(hi > lo, n > 0)))
    s.add(z3.Or(dis) if dis else z3.BoolVal(False))
    r = s.check()
    if str(r) == "unsat":
        return True, "domain == shape for all parameter values"
    if str(r) == "sat":
        return False, {str(d): str(s.model()[d]) for d in s.model().decls()}
    return None, "unknown"
