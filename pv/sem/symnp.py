"""symnp -- NumPy's documented semantics, pointwise, on lazy arrays.

An :class:`LArr` is ``(shape, dtype, at)`` with ``at(idx) -> value`` in some
value algebra (``pv.sem.alg``).  All index arithmetic is plain Python ``int``
arithmetic, so the same code runs on concrete ints, on CrossHair symbolic ints
(shapes, shifts, slice bounds and indices may all be symbolic) and numerically.

This module is (a) the *reference meaning* of programs written against the
NumPy API (it is validated against the installed NumPy on every run) and
(b) the "NumPy-like module" handed to pytato's Python target, which turns the
generated Python function into a symbolic one.  Attribute access refuses any
name the installed NumPy does not have.
"""
from __future__ import annotations

import itertools

import numpy as np

from pv.drive import HarnessError
from pv.sem.alg import is_int


class SymnpUnsupported(HarnessError):
    pass


def _prod(xs):
    r = 1
    for x in xs:
        r = r * x
    return r


def _isarr(x):
    return isinstance(x, LArr)


class LArr:
    __array_priority__ = 1000

    def __init__(self, xp, shape, dtype, at):
        self.xp = xp
        self.shape = tuple(shape)
        self.dtype = np.dtype(dtype)
        self._at = at

    @property
    def ndim(self):
        return len(self.shape)

    @property
    def size(self):
        return _prod(self.shape)

    def at(self, idx):
        idx = tuple(idx)
        if len(idx) != len(self.shape):
            raise HarnessError(f"rank mismatch: index {len(idx)} vs shape {len(self.shape)}")
        return self._at(idx)

    # numpy-like surface ----------------------------------------------------
    @property
    def T(self):
        return self.xp.transpose(self)

    @property
    def real(self):
        return self.xp.real(self)

    @property
    def imag(self):
        return self.xp.imag(self)

    def astype(self, dtype):
        return self.xp.astype(self, dtype)

    def reshape(self, *shape, order="C"):
        if len(shape) == 1 and isinstance(shape[0], (tuple, list)):
            shape = shape[0]
        return self.xp.reshape(self, tuple(shape), order=order)

    def transpose(self, *axes):
        if len(axes) == 1 and isinstance(axes[0], (tuple, list)):
            axes = axes[0]
        return self.xp.transpose(self, axes or None)

    def conj(self):
        return self.xp.conj(self)

    def sum(self, axis=None):
        return self.xp.sum(self, axis=axis)

    def __getitem__(self, idx):
        return self.xp._getitem(self, idx)

    def __len__(self):
        return self.shape[0]

    def _b(self, name, other, rev=False):
        a, b = (other, self) if rev else (self, other)
        return self.xp._binary(name, a, b)

    def __add__(self, o): return self._b("add", o)
    def __radd__(self, o): return self._b("add", o, True)
    def __sub__(self, o): return self._b("sub", o)
    def __rsub__(self, o): return self._b("sub", o, True)
    def __mul__(self, o): return self._b("mul", o)
    def __rmul__(self, o): return self._b("mul", o, True)
    def __truediv__(self, o): return self._b("truediv", o)
    def __rtruediv__(self, o): return self._b("truediv", o, True)
    def __floordiv__(self, o): return self._b("floordiv", o)
    def __rfloordiv__(self, o): return self._b("floordiv", o, True)
    def __mod__(self, o): return self._b("mod", o)
    def __rmod__(self, o): return self._b("mod", o, True)
    def __pow__(self, o): return self._b("pow", o)
    def __rpow__(self, o): return self._b("pow", o, True)
    def __and__(self, o): return self._b("bitand", o)
    def __rand__(self, o): return self._b("bitand", o, True)
    def __or__(self, o): return self._b("bitor", o)
    def __ror__(self, o): return self._b("bitor", o, True)
    def __xor__(self, o): return self._b("bitxor", o)
    def __rxor__(self, o): return self._b("bitxor", o, True)
    def __neg__(self): return self.xp.negative(self)
    def __pos__(self): return self
    def __abs__(self): return self.xp.abs(self)
    def __invert__(self): return self.xp.invert(self)
    def __matmul__(self, o): return self.xp.matmul(self, o)
    def __rmatmul__(self, o): return self.xp.matmul(o, self)
    def __lt__(self, o): return self._b("cmp<", o)
    def __le__(self, o): return self._b("cmp<=", o)
    def __gt__(self, o): return self._b("cmp>", o)
    def __ge__(self, o): return self._b("cmp>=", o)
    # == / != stay identity-based (pytato semantics); use xp.equal

    def to_numpy(self):
        """materialise (concrete shapes and NumAlg only)"""
        out = np.empty(tuple(int(s) for s in self.shape), dtype=self.dtype)
        for idx in itertools.product(*[range(int(s)) for s in self.shape]):
            out[idx] = self.at(idx)
        return out


def broadcast_shapes(*shapes):
    """NumPy broadcasting rule; raises ValueError if incompatible.  Works with
    symbolic extents (each comparison is a branch)."""
    n = max((len(s) for s in shapes), default=0)
    out = []
    for k in range(n):
        d = 1
        for s in shapes:
            j = k - (n - len(s))
            if j < 0:
                continue
            x = s[j]
            if x == 1:
                continue
            if d == 1:
                d = x
            elif d != x:
                raise ValueError("shape mismatch: objects cannot be broadcast to a single shape")
        out.append(d)
    return tuple(out)


def _bidx(shape, out_ndim, idx):
    """index into an operand of *shape* when the broadcast result is indexed by *idx*"""
    off = out_ndim - len(shape)
    return tuple(0 if shape[j] == 1 else idx[off + j] for j in range(len(shape)))


def norm_axis(axis, ndim):
    if not (-ndim <= axis < ndim):
        raise np.exceptions.AxisError("axis is out of bounds for array")
    return axis + ndim if axis < 0 else axis


def slice_indices(start, stop, step, n):
    """CPython's PySlice_AdjustIndices as pure arithmetic: (start, stop, step, length)"""
    if step is None:
        step = 1
    if step == 0:
        raise ValueError("slice step cannot be zero")
    if step > 0:
        lo, hi = 0, n
    else:
        lo, hi = -1, n - 1
    if start is None:
        start = lo if step > 0 else hi
    else:
        if start < 0:
            start = start + n
            if start < lo:
                start = lo
        elif start > hi:
            start = hi
    if stop is None:
        stop = hi if step > 0 else lo
    else:
        if stop < 0:
            stop = stop + n
            if stop < lo:
                stop = lo
        elif stop > hi:
            stop = hi
    if step > 0:
        length = (stop - start + step - 1) // step if stop > start else 0
    else:
        length = (start - stop - step - 1) // (-step) if start > stop else 0
    return start, stop, step, length


def lin(idx, shape, order):
    """linear offset of idx in an array of *shape*"""
    r = 0
    axes = range(len(shape)) if order == "C" else range(len(shape) - 1, -1, -1)
    for a in axes:
        r = r * shape[a] + idx[a]
    return r


def delin(off, shape, order):
    idx = [None] * len(shape)
    axes = range(len(shape) - 1, -1, -1) if order == "C" else range(len(shape))
    for a in axes:
        n = shape[a]
        idx[a] = off % n
        off = off // n
    return tuple(idx)


_FLOAT_FUNCS = ["sqrt", "sin", "cos", "tan", "arcsin", "arccos", "arctan", "sinh", "cosh", "tanh",
                "exp", "log", "log10", "floor", "ceil"]
_C99 = {"arcsin": "asin", "arccos": "acos", "arctan": "atan", "arctan2": "atan2"}


class SymNP:
    """A NumPy-compatible namespace over the value algebra *alg*."""

    newaxis = None
    pi = np.pi
    e = np.e
    inf = np.inf
    nan = np.nan

    def __init__(self, alg):
        self.alg = alg
        for k in ("bool_", "int8", "int16", "int32", "int64", "uint8", "uint16", "uint32", "uint64",
                  "float32", "float64", "complex64", "complex128", "intp"):
            setattr(self, k, getattr(np, k))
        for f in _FLOAT_FUNCS:
            setattr(self, f, self._mk_float_func(f))

    def __getattr__(self, name):
        if name.startswith("__"):
            raise AttributeError(name)
        if hasattr(np, name):
            raise SymnpUnsupported(f"symnp does not implement numpy.{name}")
        raise AttributeError(f"module 'numpy' has no attribute '{name}'")

    # -- construction -------------------------------------------------------
    def input(self, name, shape, dtype):
        alg = self.alg
        return LArr(self, shape, dtype, lambda idx: alg.read(name, idx))

    def from_numpy(self, a):
        a = np.asarray(a)
        alg = self.alg
        return LArr(self, a.shape, a.dtype, lambda idx: alg.const(a[tuple(int(i) for i in idx)]))

    def asarray(self, x, dtype=None):
        if _isarr(x):
            return x if dtype is None else self.astype(x, dtype)
        if isinstance(x, np.ndarray):
            r = self.from_numpy(x)
            return r if dtype is None else self.astype(r, dtype)
        dt = np.dtype(dtype) if dtype is not None else np.result_type(x)
        alg = self.alg
        return LArr(self, (), dt, lambda idx: alg.const(x))

    array = asarray

    def full(self, shape, fill_value, dtype=None):
        if not isinstance(shape, (tuple, list)):
            shape = (shape,)
        dt = np.dtype(dtype) if dtype is not None else np.result_type(fill_value)
        alg = self.alg
        if _isarr(fill_value):
            fv = fill_value
            return LArr(self, shape, dt, lambda idx: alg.cast(dt, fv.at(())))
        c = dt.type(fill_value)
        return LArr(self, shape, dt, lambda idx: alg.const(c))

    def zeros(self, shape, dtype=float):
        return self.full(shape, 0, dtype)

    def ones(self, shape, dtype=float):
        return self.full(shape, 1, dtype)

    def zeros_like(self, a, dtype=None):
        return self.full(a.shape, 0, dtype or a.dtype)

    def ones_like(self, a, dtype=None):
        return self.full(a.shape, 1, dtype or a.dtype)

    def full_like(self, a, fill_value, dtype=None):
        return self.full(a.shape, fill_value, dtype or a.dtype)

    def eye(self, N, M=None, k=0, dtype=float):
        M = N if M is None else M
        dt = np.dtype(dtype)
        alg = self.alg
        one, zero = dt.type(1), dt.type(0)
        return LArr(self, (N, M), dt, lambda idx: alg.const(one) if idx[1] - idx[0] == k else alg.const(zero))

    def arange(self, *args, dtype=None):
        if len(args) == 1:
            start, stop, step = 0, args[0], 1
        elif len(args) == 2:
            start, stop, step = args[0], args[1], 1
        else:
            start, stop, step = args
        if dtype is None:
            dtype = np.result_type(start, stop, step)
        dt = np.dtype(dtype)
        if step == 0:
            raise ZeroDivisionError("arange step 0")
        if step > 0:
            n = (stop - start + step - 1) // step if stop > start else 0
        else:
            n = (start - stop - step - 1) // (-step) if start > stop else 0
        alg = self.alg
        return LArr(self, (n,), dt, lambda idx: alg.cast(dt, start + idx[0] * step)
                    if dt.kind not in "iu" else start + idx[0] * step)

    # -- elementwise --------------------------------------------------------
    def _scalar_dtype(self, x):
        return None

    def _as_operand(self, x):
        """-> (shape, dtype-or-pyscalar, at)"""
        if _isarr(x):
            return x.shape, x.dtype, x.at
        if isinstance(x, np.ndarray):
            return self._as_operand(self.from_numpy(x))
        if isinstance(x, np.generic):
            alg = self.alg
            return (), x.dtype, (lambda idx: alg.const(x))
        if isinstance(x, (bool, int, float, complex)):
            alg = self.alg
            return (), x, (lambda idx: alg.const(x))
        raise SymnpUnsupported(f"operand of type {type(x).__name__}")

    def _result_dtype(self, *dts):
        # dts: np.dtype for arrays/np scalars, Python scalars (weak) otherwise
        return np.result_type(*dts)

    def _binary(self, name, a, b):
        sa, da, fa = self._as_operand(a)
        sb, db, fb = self._as_operand(b)
        shape = broadcast_shapes(sa, sb)
        n = len(shape)
        alg = self.alg
        if name in ("and", "or"):
            rdt = np.dtype(bool)
            return LArr(self, shape, rdt,
                        lambda idx: alg.op(name, fa(_bidx(sa, n, idx)), fb(_bidx(sb, n, idx))))
        cdt = self._result_dtype(da, db)
        if name == "truediv" and cdt.kind in "biu":
            cdt = np.dtype(np.float64)
        if name.startswith("cmp"):
            rdt = np.dtype(bool)
        else:
            rdt = cdt
            if name in ("sub",) and cdt.kind == "b":
                raise TypeError("numpy boolean subtract, the `-` operator, is not supported")
            if name in ("bitand", "bitor", "bitxor") and cdt.kind not in "biu":
                raise TypeError("bitwise operation on non-integer")
            if name in ("add", "mul") and cdt.kind == "b":
                # numpy: bool+bool = logical or, bool*bool = logical and
                name = {"add": "or", "mul": "and"}[name]

        def at(idx):
            x = alg.cast(cdt, fa(_bidx(sa, n, idx)))
            y = alg.cast(cdt, fb(_bidx(sb, n, idx)))
            return alg.op(name, x, y)
        return LArr(self, shape, rdt, at)

    def add(self, a, b): return self._binary("add", a, b)
    def subtract(self, a, b): return self._binary("sub", a, b)
    def multiply(self, a, b): return self._binary("mul", a, b)
    def divide(self, a, b): return self._binary("truediv", a, b)
    true_divide = divide
    def floor_divide(self, a, b): return self._binary("floordiv", a, b)
    def mod(self, a, b): return self._binary("mod", a, b)
    remainder = mod
    def power(self, a, b): return self._binary("pow", a, b)
    def less(self, a, b): return self._binary("cmp<", a, b)
    def less_equal(self, a, b): return self._binary("cmp<=", a, b)
    def greater(self, a, b): return self._binary("cmp>", a, b)
    def greater_equal(self, a, b): return self._binary("cmp>=", a, b)
    def equal(self, a, b): return self._binary("cmp==", a, b)
    def not_equal(self, a, b): return self._binary("cmp!=", a, b)
    def logical_and(self, a, b): return self._binary("and", a, b)
    def logical_or(self, a, b): return self._binary("or", a, b)
    def bitwise_and(self, a, b): return self._binary("bitand", a, b)
    def bitwise_or(self, a, b): return self._binary("bitor", a, b)
    def bitwise_xor(self, a, b): return self._binary("bitxor", a, b)

    def maximum(self, a, b):
        return self._minmax("max", a, b)

    def minimum(self, a, b):
        return self._minmax("min", a, b)

    def _minmax(self, name, a, b):
        """np.maximum / np.minimum: NaN-propagating for inexact types; written as the
        case analysis NumPy documents (so it is comparable term by term)"""
        sa, da, fa = self._as_operand(a)
        sb, db, fb = self._as_operand(b)
        shape = broadcast_shapes(sa, sb)
        n = len(shape)
        cdt = self._result_dtype(da, db)
        alg = self.alg
        cmp = "cmp>" if name == "max" else "cmp<"

        def at(idx):
            x0, y0 = fa(_bidx(sa, n, idx)), fb(_bidx(sb, n, idx))
            x, y = alg.cast(cdt, x0), alg.cast(cdt, y0)
            pick = alg.select(alg.op(cmp, x0, y0), lambda: x, lambda: y)
            if cdt.kind in "fc":
                return alg.select(alg.op("or", alg.call("isnan", x0), alg.call("isnan", y0)), alg.nan, lambda: pick)
            return pick
        return LArr(self, shape, cdt, at)

    def logical_not(self, a):
        s, d, f = self._as_operand(a)
        alg = self.alg
        return LArr(self, s, bool, lambda idx: alg.op("not", f(idx)))

    def invert(self, a):
        s, d, f = self._as_operand(a)
        alg = self.alg
        if np.dtype(d).kind == "b":
            return LArr(self, s, bool, lambda idx: alg.op("not", f(idx)))
        return LArr(self, s, d, lambda idx: alg.op("bitnot", f(idx)))

    def negative(self, a):
        s, d, f = self._as_operand(a)
        alg = self.alg
        return LArr(self, s, d, lambda idx: alg.op("mul", -1, f(idx)))

    def where(self, c, a, b):
        sc, dc, fc = self._as_operand(c)
        sa, da, fa = self._as_operand(a)
        sb, db, fb = self._as_operand(b)
        shape = broadcast_shapes(sc, sa, sb)
        n = len(shape)
        rdt = self._result_dtype(da, db)
        alg = self.alg

        def at(idx):
            cv = fc(_bidx(sc, n, idx))
            return alg.select(cv, lambda: alg.cast(rdt, fa(_bidx(sa, n, idx))),
                              lambda: alg.cast(rdt, fb(_bidx(sb, n, idx))))
        return LArr(self, shape, rdt, at)

    def _mk_float_func(self, fname):
        cname = _C99.get(fname, fname)

        def f(a):
            s, d, at = self._as_operand(a)
            d = np.dtype(d) if not isinstance(d, (bool, int, float, complex)) else np.result_type(d)
            rdt = d if d.kind in "fc" else np.dtype(np.float64)
            alg = self.alg
            return LArr(self, s, rdt, lambda idx: alg.call(cname, alg.cast(rdt, at(idx))))
        f.__name__ = fname
        return f

    def arctan2(self, a, b):
        sa, da, fa = self._as_operand(a)
        sb, db, fb = self._as_operand(b)
        shape = broadcast_shapes(sa, sb)
        n = len(shape)
        cdt = self._result_dtype(da, db)
        if cdt.kind not in "f":
            cdt = np.dtype(np.float64)
        alg = self.alg
        return LArr(self, shape, cdt, lambda idx: alg.call(
            "atan2", alg.cast(cdt, fa(_bidx(sa, n, idx))), alg.cast(cdt, fb(_bidx(sb, n, idx)))))

    def abs(self, a):
        s, d, f = self._as_operand(a)
        d = np.dtype(d)
        rdt = np.empty(0, d).real.dtype if d.kind == "c" else d
        alg = self.alg
        return LArr(self, s, rdt, lambda idx: alg.call("abs", f(idx)))

    absolute = abs

    def isnan(self, a):
        s, d, f = self._as_operand(a)
        alg = self.alg
        return LArr(self, s, bool, lambda idx: alg.call("isnan", f(idx)))

    def real(self, a):
        s, d, f = self._as_operand(a)
        d = np.dtype(d)
        if d.kind != "c":
            return a
        alg = self.alg
        return LArr(self, s, np.empty(0, d).real.dtype, lambda idx: alg.call("real", f(idx)))

    def imag(self, a):
        s, d, f = self._as_operand(a)
        d = np.dtype(d)
        alg = self.alg
        if d.kind != "c":
            z = d.type(0)
            return LArr(self, s, d, lambda idx: alg.const(z))
        return LArr(self, s, np.empty(0, d).real.dtype, lambda idx: alg.call("imag", f(idx)))

    def conj(self, a):
        s, d, f = self._as_operand(a)
        d = np.dtype(d)
        if d.kind != "c":
            return a
        alg = self.alg
        return LArr(self, s, d, lambda idx: alg.call("conj", f(idx)))

    conjugate = conj

    def astype(self, a, dtype):
        dt = np.dtype(dtype)
        alg = self.alg
        return LArr(self, a.shape, dt, lambda idx: alg.cast(dt, a.at(idx)))

    # -- reductions ---------------------------------------------------------
    def _reduce(self, op, a, axis, rdt=None, initial_ok=True):
        nd = a.ndim
        if axis is None:
            axes = tuple(range(nd))
        elif isinstance(axis, (tuple, list)):
            axes = tuple(norm_axis(x, nd) for x in axis)
            if len(set(axes)) != len(axes):
                raise ValueError("duplicate value in 'axis'")
        else:
            axes = (norm_axis(axis, nd),)
        axes = tuple(sorted(axes))
        keep = [d for d in range(nd) if d not in axes]
        shape = tuple(a.shape[d] for d in keep)
        if rdt is None:
            rdt = a.dtype
            if op in ("sum", "product") and rdt.kind in "b":
                rdt = np.dtype(np.int64)
            elif op in ("sum", "product") and rdt.kind == "i" and rdt.itemsize < 8:
                rdt = np.dtype(np.int64)
            elif op in ("sum", "product") and rdt.kind == "u" and rdt.itemsize < 8:
                rdt = np.dtype(np.uint64)
        alg = self.alg
        if not axes:
            return LArr(self, shape, rdt, lambda idx: alg.cast(rdt, a.at(idx)))
        bounds = [(0, a.shape[d]) for d in axes]

        def at(idx):
            def body(rs):
                full = [None] * nd
                for d, v in zip(keep, idx):
                    full[d] = v
                for d, v in zip(axes, rs):
                    full[d] = v
                v = a.at(tuple(full))
                return alg.cast(rdt, v) if op in ("sum", "product") else v
            return alg.reduce(op, bounds, body)
        return LArr(self, shape, rdt, at)

    def sum(self, a, axis=None): return self._reduce("sum", a, axis)
    def prod(self, a, axis=None): return self._reduce("product", a, axis)

    def max(self, a, axis=None): return self._reduce("max", a, axis)
    def min(self, a, axis=None): return self._reduce("min", a, axis)
    amax = max
    amin = min

    def all(self, a, axis=None): return self._reduce("all", a, axis, np.dtype(bool))
    def any(self, a, axis=None): return self._reduce("any", a, axis, np.dtype(bool))

    # -- shape manipulation -------------------------------------------------
    def transpose(self, a, axes=None):
        nd = a.ndim
        if axes is None:
            axes = tuple(range(nd))[::-1]
        axes = tuple(norm_axis(x, nd) for x in axes)
        if sorted(axes) != list(range(nd)):
            raise ValueError("axes don't match array")
        shape = tuple(a.shape[x] for x in axes)

        def at(idx):
            src = [None] * nd
            for to, frm in enumerate(axes):
                src[frm] = idx[to]
            return a.at(tuple(src))
        return LArr(self, shape, a.dtype, at)

    def roll(self, a, shift, axis=None):
        if axis is None:
            return self.reshape(self.roll(self.reshape(a, (a.size,)), shift, 0), a.shape)
        ax = norm_axis(axis, a.ndim)
        n = a.shape[ax]

        def at(idx):
            j = list(idx)
            j[ax] = (idx[ax] - shift) % n
            return a.at(tuple(j))
        return LArr(self, a.shape, a.dtype, at)

    def reshape(self, a, newshape, order="C"):
        if not isinstance(newshape, (tuple, list)):
            newshape = (newshape,)
        newshape = list(newshape)
        # (NumPy treats every negative entry as "unknown", not only -1)
        unknown = [k for k, s in enumerate(newshape) if s < 0]
        if len(unknown) > 1:
            raise ValueError("can only specify one unknown dimension")
        size = a.size
        if unknown:
            rest = _prod(s for k, s in enumerate(newshape) if k != unknown[0])
            if rest == 0 or size % rest != 0:
                raise ValueError("cannot reshape array")
            newshape[unknown[0]] = size // rest
        if _prod(newshape) != size:
            raise ValueError("cannot reshape array of size into shape")
        newshape = tuple(newshape)
        order = order.upper()
        if order not in ("C", "F"):
            raise SymnpUnsupported("reshape order " + order)
        oldshape = a.shape

        def at(idx):
            return a.at(delin(lin(idx, newshape, order), oldshape, order))
        return LArr(self, newshape, a.dtype, at)

    def ravel(self, a, order="C"):
        return self.reshape(a, (a.size,), order)

    def expand_dims(self, a, axis):
        axes = axis if isinstance(axis, (tuple, list)) else (axis,)
        nd = a.ndim + len(axes)
        axes = sorted(norm_axis(x, nd) for x in axes)
        if len(set(axes)) != len(axes):
            raise ValueError("repeated axis")
        it = iter(a.shape)
        shape = tuple(1 if d in axes else next(it) for d in range(nd))
        keep = [d for d in range(nd) if d not in axes]
        return LArr(self, shape, a.dtype, lambda idx: a.at(tuple(idx[d] for d in keep)))

    def squeeze(self, a, axis=None):
        if axis is None:
            axes = [d for d in range(a.ndim) if a.shape[d] == 1]
        else:
            axes = axis if isinstance(axis, (tuple, list)) else (axis,)
            axes = [norm_axis(x, a.ndim) for x in axes]
            for d in axes:
                if a.shape[d] != 1:
                    raise ValueError("cannot select an axis to squeeze out which has size not equal to one")
        keep = [d for d in range(a.ndim) if d not in axes]
        shape = tuple(a.shape[d] for d in keep)
        nd = a.ndim

        def at(idx):
            full = [0] * nd
            for d, v in zip(keep, idx):
                full[d] = v
            return a.at(tuple(full))
        return LArr(self, shape, a.dtype, at)

    def broadcast_to(self, a, shape):
        if not isinstance(shape, (tuple, list)):
            shape = (shape,)
        shape = tuple(shape)
        sa = a.shape if _isarr(a) else ()
        if not _isarr(a):
            a = self.asarray(a)
        if len(shape) < len(sa):
            raise ValueError("input operand has more dimensions than allowed by the axis remapping")
        if broadcast_shapes(sa, shape) != shape:
            raise ValueError("operands could not be broadcast together")
        n = len(shape)
        return LArr(self, shape, a.dtype, lambda idx: a.at(_bidx(sa, n, idx)))

    def stack(self, arrays, axis=0):
        arrays = list(arrays)
        if not arrays:
            raise ValueError("need at least one array to stack")
        s0 = arrays[0].shape
        for x in arrays[1:]:
            if len(x.shape) != len(s0) or any(p != q for p, q in zip(x.shape, s0)):
                raise ValueError("all input arrays must have the same shape")
        nd = len(s0) + 1
        ax = norm_axis(axis, nd)
        shape = s0[:ax] + (len(arrays),) + s0[ax:]
        rdt = np.result_type(*[x.dtype for x in arrays])
        alg = self.alg

        def at(idx):
            k = idx[ax]
            rest = idx[:ax] + idx[ax + 1:]
            for i, x in enumerate(arrays[:-1]):
                if k == i:
                    return alg.cast(rdt, x.at(rest))
            return alg.cast(rdt, arrays[-1].at(rest))
        return LArr(self, shape, rdt, at)

    def concatenate(self, arrays, axis=0):
        arrays = list(arrays)
        if not arrays:
            raise ValueError("need at least one array to concatenate")
        nd = arrays[0].ndim
        if nd == 0:
            raise ValueError("zero-dimensional arrays cannot be concatenated")
        ax = norm_axis(axis, nd)
        for x in arrays[1:]:
            if x.ndim != nd:
                raise ValueError("all the input array dimensions must match")
            for d in range(nd):
                if d != ax and x.shape[d] != arrays[0].shape[d]:
                    raise ValueError("all the input array dimensions except for the concatenation axis must match")
        total = 0
        offs = []
        for x in arrays:
            offs.append(total)
            total = total + x.shape[ax]
        shape = arrays[0].shape[:ax] + (total,) + arrays[0].shape[ax + 1:]
        rdt = np.result_type(*[x.dtype for x in arrays])
        alg = self.alg

        def at(idx):
            k = idx[ax]
            for x, off in zip(arrays[:-1], offs[:-1]):
                if k < off + x.shape[ax]:
                    return alg.cast(rdt, x.at(idx[:ax] + (k - off,) + idx[ax + 1:]))
            return alg.cast(rdt, arrays[-1].at(idx[:ax] + (k - offs[-1],) + idx[ax + 1:]))
        return LArr(self, shape, rdt, at)

    def pad(self, a, pad_width, mode="constant", constant_values=0):
        if mode != "constant":
            raise SymnpUnsupported("pad mode " + mode)
        nd = a.ndim

        def norm(pw):
            # NumPy: scalar | (before, after) | ((before, after),) | ((b0, a0), (b1, a1), ...)
            if not isinstance(pw, (tuple, list)):
                return [(pw, pw)] * nd
            pw = list(pw)
            if len(pw) == 2 and not any(isinstance(x, (tuple, list)) for x in pw):
                return [(pw[0], pw[1])] * nd
            if len(pw) == 1:
                x = pw[0]
                return [tuple(x) if isinstance(x, (tuple, list)) else (x, x)] * nd
            if len(pw) != nd:
                raise ValueError("operands could not be broadcast together (pad_width)")
            return [(tuple(x) if isinstance(x, (tuple, list)) else (x, x)) for x in pw]
        pws = norm(pad_width)
        for b_, a_ in pws:
            if b_ < 0 or a_ < 0:
                raise ValueError("index can't contain negative values")
        cvs = norm(constant_values) if not _isarr(constant_values) else None
        if cvs is None:
            raise SymnpUnsupported("array-valued pad constants")
        shape = tuple(a.shape[d] + pws[d][0] + pws[d][1] for d in range(nd))
        alg = self.alg
        dt = a.dtype

        def at(idx):
            # numpy pads axis by axis: later axes overwrite corners
            for d in range(nd - 1, -1, -1):
                if idx[d] < pws[d][0]:
                    return alg.const(dt.type(cvs[d][0]))
                if idx[d] >= pws[d][0] + a.shape[d]:
                    return alg.const(dt.type(cvs[d][1]))
            return a.at(tuple(idx[d] - pws[d][0] for d in range(nd)))
        return LArr(self, shape, dt, at)

    # -- products -----------------------------------------------------------
    def einsum(self, subscripts, *operands):
        spec = subscripts.replace(" ", "")
        if "->" in spec:
            ins, out = spec.split("->")
        else:
            ins = spec
            letters = "".join(sorted(set(ins.replace(",", ""))))
            out = "".join(c for c in letters if ins.replace(",", "").count(c) == 1)
        ins = ins.split(",")
        if len(ins) != len(operands):
            raise ValueError("more operands provided to einstein sum function than specified")
        if "." in spec:
            raise SymnpUnsupported("einsum ellipsis")
        lens = {}
        for sub, opnd in zip(ins, operands):
            if len(sub) != opnd.ndim:
                raise ValueError("einstein sum subscripts string contains too many subscripts for operand")
            own = {}
            for c, n in zip(sub, opnd.shape):
                # within one operand a repeated label must have one length (NumPy
                # treats a leading 0 as "not yet set")
                if c in own and own[c] != 0:
                    if own[c] != n:
                        raise ValueError("dimensions in single operand for collapsing index don't match")
                else:
                    own[c] = n
            for c, n in own.items():
                if c in lens:
                    if lens[c] == 1:
                        lens[c] = n
                    elif n != 1 and n != lens[c]:
                        raise ValueError("operands could not be broadcast together")
                else:
                    lens[c] = n
        for c in out:
            if c not in lens:
                raise ValueError("einstein sum subscripts string included output subscript which never appeared in an input")
        if len(set(out)) != len(out):
            raise ValueError("output subscript appears more than once")
        red = sorted(c for c in lens if c not in out)
        rdt = np.result_type(*[o.dtype for o in operands])
        shape = tuple(lens[c] for c in out)
        alg = self.alg

        def term(assign):
            fs = []
            for sub, opnd in zip(ins, operands):
                ix = tuple(0 if opnd.shape[k] == 1 else assign[c] for k, c in enumerate(sub))
                fs.append(alg.cast(rdt, opnd.at(ix)))
            return alg.op("mul", *fs) if len(fs) > 1 else fs[0]

        def at(idx):
            assign = dict(zip(out, idx))
            if not red:
                return term(assign)

            def body(rs):
                a2 = dict(assign)
                a2.update(zip(red, rs))
                return term(a2)
            return alg.reduce("sum", [(0, lens[c]) for c in red], body)
        return LArr(self, shape, rdt, at)

    def matmul(self, a, b):
        if not _isarr(a) or not _isarr(b) or a.ndim == 0 or b.ndim == 0:
            raise ValueError("matmul: Input operand does not have enough dimensions")
        if a.ndim == 1 and b.ndim == 1:
            if a.shape[0] != b.shape[0]:
                raise ValueError("matmul: Input operand 1 has a mismatch in its core dimension 0")
            return self.einsum("i,i->", a, b)
        if a.ndim == 1:
            r = self.matmul(self.expand_dims(a, 0), b)
            return self.squeeze(r, axis=-2)
        if b.ndim == 1:
            r = self.matmul(a, self.expand_dims(b, 1))
            return self.squeeze(r, axis=-1)
        if a.shape[-1] != b.shape[-2]:
            raise ValueError("matmul: Input operand 1 has a mismatch in its core dimension 0")
        batch = broadcast_shapes(a.shape[:-2], b.shape[:-2])
        nb = len(batch)
        shape = batch + (a.shape[-2], b.shape[-1])
        rdt = np.result_type(a.dtype, b.dtype)
        K = a.shape[-1]
        alg = self.alg

        def at(idx):
            bi = idx[:nb]
            i, j = idx[nb], idx[nb + 1]
            ai = _bidx(a.shape[:-2], nb, bi)
            bj = _bidx(b.shape[:-2], nb, bi)

            def body(rs):
                k, = rs
                return alg.op("mul", alg.cast(rdt, a.at(ai + (i, k))), alg.cast(rdt, b.at(bj + (k, j))))
            return alg.reduce("sum", [(0, K)], body)
        return LArr(self, shape, rdt, at)

    def dot(self, a, b):
        if not _isarr(a) or not _isarr(b) or a.ndim == 0 or b.ndim == 0:
            return self.multiply(a, b)
        if a.ndim <= 2 and b.ndim <= 2:
            return self.matmul(a, b)
        # N-d: sum over the last axis of a and the second-to-last of b
        kb = b.ndim - 2 if b.ndim >= 2 else 0
        if a.shape[-1] != b.shape[kb]:
            raise ValueError("shapes not aligned")
        K = a.shape[-1]
        bshape_rest = tuple(n for d, n in enumerate(b.shape) if d != kb)
        shape = a.shape[:-1] + bshape_rest
        rdt = np.result_type(a.dtype, b.dtype)
        alg = self.alg
        na = a.ndim - 1

        def at(idx):
            ai = idx[:na]
            brest = list(idx[na:])

            def body(rs):
                k, = rs
                bi = brest[:kb] + [k] + brest[kb:]
                return alg.op("mul", alg.cast(rdt, a.at(ai + (k,))), alg.cast(rdt, b.at(tuple(bi))))
            return alg.reduce("sum", [(0, K)], body)
        return LArr(self, shape, rdt, at)

    def vdot(self, a, b):
        return self.einsum("i,i->", self.conj(self.ravel(a)), self.ravel(b))

    def callee_rowsum(self, a, b):
        return self.sum(2 * a, axis=1) + b

    def callee_sq_and_neg(self, a):
        return a * a + 1, self.transpose(self.negative(a))

    def callee_scaled(self, a, alpha):
        return alpha * a + 1

    def handmade_sub(self, x, y):
        return x - y

    def handmade_weighted(self, arrs):
        r = arrs[0]
        for k in range(1, len(arrs)):
            r = r + (k + 1) * arrs[k]
        return r

    def csr_matmul(self, shape, elem_values, elem_col_indices, row_starts, x):
        """y[i, ...] = sum_{k in [row_starts[i], row_starts[i+1])} elem_values[k] * x[elem_col_indices[k], ...]
        (the documented meaning of a CSR matrix; bounds are data)"""
        rdt = np.result_type(elem_values.dtype, x.dtype)
        oshape = (shape[0],) + tuple(x.shape[1:])
        alg = self.alg

        def at(idx):
            i = idx[0]
            lo, hi = row_starts.at((i,)), row_starts.at((i + 1,))

            def body(rs):
                k, = rs
                col = elem_col_indices.at((k,))
                return alg.op("mul", alg.cast(rdt, elem_values.at((k,))), alg.cast(rdt, x.at((col, *idx[1:]))))
            return alg.reduce("sum", [(lo, hi)], body)
        return LArr(self, oshape, rdt, at)

    # -- indexing -----------------------------------------------------------
    def _getitem(self, a, key):
        if not isinstance(key, tuple):
            key = (key,)
        key = list(key)
        # expand ellipsis
        n_ell = sum(1 for k in key if k is Ellipsis)
        if n_ell > 1:
            raise IndexError("an index can only have a single ellipsis ('...')")
        n_consume = sum(1 for k in key if k is not None and k is not Ellipsis)
        if n_consume > a.ndim:
            raise IndexError("too many indices for array")
        if n_ell:
            e = key.index(Ellipsis)
            key[e:e + 1] = [slice(None)] * (a.ndim - n_consume)
        else:
            key = key + [slice(None)] * (a.ndim - n_consume)

        # classify
        adv_pos = []
        items = []   # per key entry: ("new",) | ("sl", start, step, len, axis) | ("adv", k, axis)
        axis = 0
        adv_arrays = []
        for k in key:
            if k is None:
                items.append(("new",))
                continue
            n = a.shape[axis]
            if isinstance(k, slice):
                st, sp, step, ln = slice_indices(k.start, k.stop, k.step, n)
                items.append(("sl", st, step, ln, axis))
            elif _isarr(k) or isinstance(k, np.ndarray):
                if isinstance(k, np.ndarray):
                    k = self.from_numpy(k)
                if k.dtype.kind == "b":
                    raise SymnpUnsupported("boolean mask indexing")
                if k.dtype.kind not in "iu":
                    raise IndexError("arrays used as indices must be of integer (or boolean) type")
                items.append(("adv", len(adv_arrays), axis))
                adv_arrays.append(k)
                adv_pos.append(len(items) - 1)
            elif is_int(k):
                if not (-n <= k < n):
                    raise IndexError("index is out of bounds for axis")
                items.append(("int", k + n if k < 0 else k, axis))
            else:
                raise IndexError("only integers, slices (`:`), ellipsis (`...`), numpy.newaxis (`None`) and "
                                 "integer or boolean arrays are valid indices")
            axis += 1

        alg = self.alg
        if not adv_arrays:
            shape = []
            for it in items:
                if it[0] == "new":
                    shape.append(1)
                elif it[0] == "sl":
                    shape.append(it[3])

            def at(idx):
                src = [None] * a.ndim
                p = 0
                for it in items:
                    if it[0] == "new":
                        p += 1
                    elif it[0] == "sl":
                        src[it[4]] = it[1] + idx[p] * it[2]
                        p += 1
                    else:
                        src[it[2]] = it[1]
                return a.at(tuple(src))
            return LArr(self, tuple(shape), a.dtype, at)

        # advanced indexing: ints take part as 0-d index arrays
        adv_items = [i for i, it in enumerate(items) if it[0] in ("adv", "int")]
        bshape = broadcast_shapes(*[k.shape for k in adv_arrays])
        nb = len(bshape)
        first, last = adv_items[0], adv_items[-1]
        contiguous = all(items[i][0] in ("adv", "int") for i in range(first, last + 1))
        # result layout
        pre = [it for it in items[:first]] if contiguous else []
        layout = []   # list of ("b",) block or item refs
        if contiguous:
            layout = [("it", i) for i in range(first)] + [("b",)] + \
                     [("it", i) for i in range(last + 1, len(items))]
        else:
            layout = [("b",)] + [("it", i) for i, it in enumerate(items) if it[0] in ("sl", "new")]
        shape = []
        for l in layout:
            if l[0] == "b":
                shape.extend(bshape)
            else:
                it = items[l[1]]
                if it[0] == "new":
                    shape.append(1)
                elif it[0] == "sl":
                    shape.append(it[3])
        del pre

        def at(idx):  # noqa: F811
            src = [None] * a.ndim
            p = 0
            bidx = None
            pos_of = {}
            for l in layout:
                if l[0] == "b":
                    bidx = idx[p:p + nb]
                    p += nb
                else:
                    it = items[l[1]]
                    if it[0] in ("new", "sl"):
                        pos_of[l[1]] = idx[p]
                        p += 1
            for i, it in enumerate(items):
                if it[0] == "sl":
                    src[it[4]] = it[1] + pos_of[i] * it[2]
                elif it[0] == "int":
                    src[it[2]] = it[1]
                elif it[0] == "adv":
                    k = adv_arrays[it[1]]
                    v = k.at(_bidx(k.shape, nb, bidx))
                    n = a.shape[it[2]]
                    src[it[2]] = v if getattr(k, "nonneg", False) else alg.op("mod", v, n)
            return a.at(tuple(src))
        return LArr(self, tuple(shape), a.dtype, at)

    def take(self, a, indices, axis=None):
        if axis is None:
            return self.ravel(a)[indices]
        key = [slice(None)] * norm_axis(axis, a.ndim) + [indices]
        return a[tuple(key)]
