"""eval_kernel: interpreter for the restricted kernel form pytato's
``generate_loopy`` emits.

A concrete prologue (:class:`KernelModel`) extracts from the real loopy
``TranslationUnit`` a plain-Python model: one writer instruction per written
variable, ``within_inames``, per-iname bounds read off the ISL constraints,
substitution rules, the argument table.  ``KernelModel.at(alg, name, idx)``
then evaluates one element of one variable in a value algebra (symbolic index
under CrossHair, numeric for validation).

Anything outside the supported form raises :class:`KernelUnsupported`
(reported as inconclusive, never as passing).
"""
from __future__ import annotations

import numpy as np
import pymbolic.primitives as p

from pv.sem.ilsem import Ev, Unsupported


class KernelUnsupported(Unsupported):
    pass


def _aff_from_constraint(c, skip):
    """-> (pymbolic expr of sum_{k != skip} coeff_k * var_k + const)"""
    co = c.get_coefficients_by_name()
    expr = 0
    for k, v in co.items():
        v = int(str(v))
        if k == skip or v == 0:
            continue
        expr = expr + (v if k == 1 else v * p.Variable(k))
    return expr


class KernelModel:
    def __init__(self, t_unit, entry=None):
        import loopy as lp
        self.t_unit = t_unit
        k = t_unit[entry] if entry else t_unit.default_entrypoint
        self.k = k
        self.args = {a.name: a for a in k.args}
        self.temps = dict(k.temporary_variables)
        self.subst = dict(k.substitutions)
        self.writers = {}
        self.insn_by_id = {i.id: i for i in k.instructions}
        self.callees = {}
        for insn in k.instructions:
            if isinstance(insn, lp.Assignment):
                names = [self._assignee_name(insn.assignee)]
            elif isinstance(insn, lp.CallInstruction):
                names = [self._assignee_name(a) for a in insn.assignees]
            else:
                raise KernelUnsupported(f"instruction type {type(insn).__name__}")
            for n in names:
                self.writers.setdefault(n, []).append(insn)
        # iname -> (lower expr, upper-exclusive expr), from the domain that declares it
        self.bounds = {}
        self.domain_of = {}
        import islpy as isl
        for dom in k.domains:
            for nm in dom.get_var_names(isl.dim_type.set):
                self.domain_of[nm] = dom
        self.structural_problems = self._check_structure()

    @staticmethod
    def _assignee_name(a):
        if isinstance(a, p.Variable):
            return a.name
        if isinstance(a, p.Subscript):
            return a.aggregate.name
        try:
            from loopy.symbolic import SubArrayRef
            if isinstance(a, SubArrayRef):
                return a.subscript.aggregate.name
        except ImportError:
            pass
        raise KernelUnsupported(f"assignee {type(a).__name__}")

    # -- ISL -------------------------------------------------------------------
    def iname_bounds(self, iname):
        """(lo, hi_exclusive) as pymbolic expressions; requires exactly one lower
        and one upper constraint with unit coefficient"""
        if iname in self.bounds:
            return self.bounds[iname]
        dom = self.domain_of.get(iname)
        if dom is None:
            raise KernelUnsupported(f"iname {iname} has no domain")
        los, his = [], []
        for c in dom.get_constraints():
            co = c.get_coefficients_by_name()
            a = int(str(co.get(iname, 0)))
            if a == 0:
                continue
            rest = _aff_from_constraint(c, iname)
            if c.is_equality():
                if abs(a) != 1:
                    raise KernelUnsupported("non-unit equality on iname")
                val = (-rest) if a == 1 else rest
                los.append(val)
                his.append(val + 1)
            elif a == 1:          # iname + rest >= 0
                los.append(-rest if not isinstance(rest, int) else -rest)
            elif a == -1:         # -iname + rest >= 0  -> iname <= rest
                his.append(rest + 1)
            else:
                raise KernelUnsupported(f"non-unit coefficient {a} on iname {iname}")
        if len(los) != 1 or len(his) != 1:
            raise KernelUnsupported(f"iname {iname}: {len(los)} lower / {len(his)} upper bounds")
        self.bounds[iname] = (los[0], his[0])
        return self.bounds[iname]

    def domain_constraints(self, inames):
        """all constraints of the domains declaring *inames*: list of (coeffs: dict name|1 -> int, is_eq)"""
        out = []
        seen = set()
        for nm in inames:
            dom = self.domain_of.get(nm)
            if dom is None or id(dom) in seen:
                continue
            seen.add(id(dom))
            for c in dom.get_constraints():
                co = {k: int(str(v)) for k, v in c.get_coefficients_by_name().items() if int(str(v)) != 0}
                out.append((co, bool(c.is_equality())))
        return out

    # -- structural assertions ---------------------------------------------------
    def _deps_closure(self, insn):
        seen = set()
        todo = list(insn.depends_on)
        while todo:
            i = todo.pop()
            if i in seen:
                continue
            seen.add(i)
            if i in self.insn_by_id:
                todo.extend(self.insn_by_id[i].depends_on)
        return seen

    def _reads_of(self, expr):
        from loopy.symbolic import DependencyMapper
        dm = DependencyMapper(composite_leaves=False)
        names = set()
        for d in dm(expr):
            if isinstance(d, p.Variable):
                names.add(d.name)
        return names

    def _check_structure(self):
        import loopy as lp
        probs = []
        seen = set()
        for a in self.k.args:
            if a.name in seen:
                probs.append(f"kernel has more than one argument named {a.name}")
            seen.add(a.name)
        for name, ws in self.writers.items():
            if len(ws) != 1:
                probs.append(f"variable {name} has {len(ws)} writers")
            arg = self.args.get(name)
            if arg is not None and (isinstance(arg, lp.ValueArg) or not getattr(arg, "is_output", False)):
                probs.append(f"input argument {name} is written by instruction {ws[0].id}")
        for name in self.temps:
            if name in self.args:
                probs.append(f"temporary {name} shadows a kernel argument")
        for name in self.subst:
            if name in self.args or name in self.temps:
                probs.append(f"substitution rule {name} shadows a kernel argument/temporary")
        for iname in self.domain_of:
            if iname in self.args or iname in self.temps:
                probs.append(f"iname {iname} collides with a variable name")
        for insn in self.k.instructions:
            for iname in insn.within_inames:
                if iname not in self.domain_of:
                    probs.append(f"instruction {insn.id} runs inside iname {iname}, which has no domain")
        for insn in self.k.instructions:
            expr = getattr(insn, "expression", None)
            if expr is None:
                continue
            reads = self._reads_of(expr)
            # expand substitution rules
            todo = [n for n in reads if n in self.subst]
            while todo:
                s = todo.pop()
                more = self._reads_of(self.subst[s].expression)
                for m in more:
                    if m not in reads:
                        reads.add(m)
                        if m in self.subst:
                            todo.append(m)
            clos = self._deps_closure(insn)
            for r in reads:
                if r in self.writers:
                    for w in self.writers[r]:
                        if w.id != insn.id and w.id not in clos:
                            probs.append(f"instruction {insn.id} reads {r} but does not depend on its writer {w.id}")
        return probs

    # -- evaluation ----------------------------------------------------------------
    def is_input(self, name):
        return name in self.args and name not in self.writers

    def shape_of(self, name):
        v = self.args.get(name) or self.temps.get(name)
        return v.shape if v is not None else None

    def at(self, alg, name, idx, env=None, sizes=None, depth=0):
        """value of element *idx* of variable *name*.  *env*: values of the inames
        visible at the reading site (needed for scalar temporaries written inside
        the reader's loops).  *sizes*: value args (size parameters)."""
        import loopy as lp
        if depth > 200:
            raise KernelUnsupported("evaluation depth")
        env = env or {}
        sizes = sizes or {}
        idx = tuple(idx)
        if name in sizes:
            return sizes[name]
        if self.is_input(name):
            arg = self.args[name]
            if isinstance(arg, lp.ValueArg):
                return alg.read(name, ())
            return alg.read(name, idx)
        if name not in self.writers:
            raise KernelUnsupported(f"read of unknown variable {name}")
        ws = self.writers[name]
        if len(ws) != 1:
            raise KernelUnsupported(f"{name}: {len(ws)} writers")
        insn = ws[0]
        if isinstance(insn, lp.CallInstruction):
            return self._call_result(alg, insn, name, idx, env, sizes, depth)
        a = insn.assignee
        env2 = {k: v for k, v in env.items() if k in insn.within_inames}
        if isinstance(a, p.Subscript):
            if len(a.index_tuple) != len(idx):
                raise KernelUnsupported(f"rank mismatch reading {name}")
            for v, val in zip(a.index_tuple, idx):
                if not isinstance(v, p.Variable):
                    raise KernelUnsupported(f"assignee subscript of {name} is not a plain iname")
                if v.name in env2 and v.name in [w.name for w in a.index_tuple[:a.index_tuple.index(v)]]:
                    raise KernelUnsupported("repeated iname in assignee")
                env2[v.name] = val
        elif idx != ():
            raise KernelUnsupported(f"indexed read of scalar {name}")
        missing = [i for i in insn.within_inames if i not in env2]
        if missing:
            raise KernelUnsupported(f"{name}: writer runs inside inames {missing} unknown at the reading site")
        if insn.predicates:
            raise KernelUnsupported("instruction predicates")
        return self._eval(alg, insn.expression, env2, sizes, depth + 1)

    def _eval(self, alg, expr, env, sizes, depth):
        def lookup(nm, i, e):
            if nm in self.subst and nm not in self.writers and nm not in self.args:
                rule = self.subst[nm]
                if len(rule.arguments) != len(i):
                    raise KernelUnsupported("substitution rule arity")
                e2 = dict(e)
                e2.update(zip(rule.arguments, i))
                return self._eval(alg, rule.expression, e2, sizes, depth + 1)
            return self.at(alg, nm, i, e, sizes, depth + 1)

        def red_bounds(iname, e):
            lo, hi = self.iname_bounds(iname)
            ev2 = Ev(alg, lookup, red_bounds, callres)
            return ev2(lo, e), ev2(hi, e)

        def callres(fname, params, e, ev):
            # substitution rule invoked as a call:  rule(i, j)
            if fname in self.subst:
                rule = self.subst[fname]
                e2 = dict(e)
                e2.update(zip(rule.arguments, [ev(a, e) for a in params]))
                return self._eval(alg, rule.expression, e2, sizes, depth + 1)
            return NotImplemented
        env = dict(env)
        for k, v in sizes.items():
            env.setdefault(k, v)
        return Ev(alg, lookup, red_bounds, callres)(expr, env)

    def _call_result(self, alg, insn, name, idx, env, sizes, depth):
        """result of a call to a hand-written callee kernel: the callee is read into
        its own model; its reads of input arguments are evaluated through the
        caller's sub-array references"""
        from loopy.symbolic import SubArrayRef
        call = insn.expression
        fn = call.function
        cname = getattr(getattr(fn, "function", fn), "name", None)
        if cname is None or cname not in self.t_unit.callables_table:
            raise KernelUnsupported(f"call to {fn}")
        if cname not in self.callees:
            self.callees[cname] = KernelModel(self.t_unit, entry=cname)
        callee = self.callees[cname]
        in_args = [a for a in callee.k.args if getattr(a, "is_input", False) and not getattr(a, "is_output", False)]
        out_args = [a for a in callee.k.args if getattr(a, "is_output", False)]
        if len(in_args) != len(call.parameters) or len(out_args) != len(insn.assignees):
            raise KernelUnsupported("callee argument convention")
        pos = [self._assignee_name(a) for a in insn.assignees].index(name)
        out_ref = insn.assignees[pos]
        if not isinstance(out_ref, SubArrayRef) or tuple(out_ref.subscript.index_tuple) != tuple(out_ref.swept_inames):
            raise KernelUnsupported("output sub-array reference is not the identity")
        param_of = {a.name: prm for a, prm in zip(in_args, call.parameters)}
        outer = self

        class CalleeAlg:
            def __getattr__(self_, n):
                return getattr(alg, n)

            def read(self_, aname, cidx):
                prm = param_of.get(aname)
                if prm is None:
                    raise KernelUnsupported(f"callee reads {aname}")
                if isinstance(prm, SubArrayRef):
                    e2 = dict(env)
                    if len(prm.swept_inames) != len(cidx):
                        raise KernelUnsupported("sub-array rank")
                    for v, val in zip(prm.swept_inames, cidx):
                        e2[v.name] = val
                    return outer._eval(alg, prm.subscript, e2, sizes, depth + 1)
                return outer._eval(alg, prm, env, sizes, depth + 1)
        return callee.at(CalleeAlg(), out_args[pos].name, idx, {}, sizes, depth + 1)


def run_kernel_numerically(t_unit, inputs):
    """Execute the real kernel through loopy's C target + gcc (replay).  Global
    temporaries are moved to private storage first (loopy's C executor cannot
    allocate globals)."""
    import loopy as lp
    k = t_unit.default_entrypoint
    glob = [n for n, tv in k.temporary_variables.items() if tv.address_space == lp.AddressSpace.GLOBAL]
    if glob:
        from loopy.kernel.data import AddressSpace
        knl = k.copy(temporary_variables={n: (tv.copy(address_space=AddressSpace.PRIVATE) if n in glob else tv)
                                          for n, tv in k.temporary_variables.items()})
        t_unit = t_unit.with_kernel(knl)
    args = {}
    for a in t_unit.default_entrypoint.args:
        if a.name in inputs:
            v = inputs[a.name]
            args[a.name] = np.ascontiguousarray(v) if isinstance(v, np.ndarray) else v
    evt, out = t_unit.executor()(**args)
    return out
