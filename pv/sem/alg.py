"""Value algebras for the pointwise evaluators.

Index arithmetic is always done on (possibly CrossHair-symbolic) Python ints,
so that it turns into solver terms.  Arithmetic on *data* is delegated to an
algebra:

* :class:`TermAlg` -- inputs are uninterpreted: a read is ``("rd", name, idx)``,
  operations build terms.  Equality of terms (``teq``) is structural with index
  components compared as ints; under CrossHair every such comparison is a
  solver decision, so "equal on all paths" means "equal for every input array
  and every index".  Reductions are compared in lock step with Skolem indices.
* :class:`NumAlg` -- numpy scalars; used to validate the evaluators against
  NumPy and to replay candidates numerically.
"""
from __future__ import annotations

import itertools
import math

import numpy as np

from pv.drive import HarnessError


def is_int(x):
    """Python int (incl. CrossHair symbolic int) or numpy integer, not bool."""
    if isinstance(x, (bool, np.bool_)):
        return False
    return isinstance(x, (int, np.integer))


def is_boolish(x):
    return isinstance(x, (bool, np.bool_))


def is_term(x):
    return isinstance(x, (tuple, Red))


class Red:
    """A reduction value, compared in lock step."""
    __slots__ = ("op", "bounds", "body", "names")

    def __init__(self, op, bounds, body, names=None):
        self.op = op            # "sum" | "product" | "max" | "min" | "all" | "any"
        self.bounds = list(bounds)   # [(lo, hi)]  half-open
        self.body = body        # callable(tuple of ints) -> value
        self.names = names


class Skolems:
    def __init__(self, pool):
        self.pool = list(pool)
        self.k = 0

    def fresh(self):
        if self.k >= len(self.pool):
            raise HarnessError("not enough Skolem indices for lock-step reduction comparison")
        v = self.pool[self.k]
        self.k += 1
        return v

    def mark(self):
        return self.k

    def reset(self, k):
        self.k = k


_KORD = {"b": 0, "i": 1, "f": 2, "c": 3}


def dtype_kind(dt):
    k = np.dtype(dt).kind
    return {"b": "b", "i": "i", "u": "i", "f": "f", "c": "c"}[k]


def _canon_const(c):
    """numeric constants are compared by value: canonicalise representation"""
    if isinstance(c, (bool, np.bool_)):
        return bool(c)
    if isinstance(c, np.integer):
        return int(c)
    if isinstance(c, (float, np.floating)):
        f = float(c)
        if math.isfinite(f) and f == int(f) and abs(f) < 2 ** 53:
            return int(f)
        return f
    if isinstance(c, (complex, np.complexfloating)):
        z = complex(c)
        if z.imag == 0:
            return _canon_const(z.real)
        return z
    return c


def skel(t):
    """Structure of a term with every integer position replaced by '#'
    (never inspects a symbolic int)."""
    if isinstance(t, Red):
        return f"Red:{t.op}:{len(t.bounds)}"
    if isinstance(t, tuple):
        return "(" + ",".join(skel(x) for x in t) + ")"
    if isinstance(t, str):
        return t
    if is_boolish(t) or is_int(t):
        return "#"
    if isinstance(t, float):
        return repr(t)
    if isinstance(t, complex):
        return repr(t)
    if t is None:
        return "None"
    return "#"


_COMM = {"add", "mul", "and", "or", "max", "min", "bitand", "bitor", "bitxor", "cmp==", "cmp!="}
_ASSOC = {"add", "mul", "and", "or", "max", "min"}
_IDENT = {"add": 0, "mul": 1}


class TermAlg:
    """Uninterpreted-term algebra.  ``kinds`` maps input names to 'b','i','f','c'."""
    symbolic = True

    def __init__(self, kinds=None, aliases=None, nonneg=()):
        self.kinds = dict(kinds or {})
        # inputs declared non-negative AND used only as in-range indices (NumPy itself demands 0 <= v < n there):
        # v % n is v for a direct read of such an input
        self.nonneg = frozenset(nonneg)
        # input name -> canonical name: two inputs that are the very same memory (same address, shape, strides and
        # dtype) are one uninterpreted array, not two
        self.aliases = dict(aliases or {})

    # -- kinds (for cast elision) ------------------------------------------
    def kind(self, v):
        if is_boolish(v):
            return "b"
        if is_int(v):
            return "i"
        if isinstance(v, float):
            return "f"
        if isinstance(v, complex):
            return "c"
        if isinstance(v, Red):
            if v.op in ("all", "any"):
                return "b"
            return self.kind(v.body(tuple(0 for _ in v.bounds)))
        if isinstance(v, tuple):
            op = v[0]
            if op == "rd":
                return self.kinds.get(v[1], "f")
            if op == "cast":
                return v[1]
            if op.startswith("cmp") or op in ("and", "or", "not"):
                return "b"
            if op == "call":
                fn = v[1]
                ak = [self.kind(a) for a in v[2:]]
                if fn in ("isnan",):
                    return "b"
                if fn in ("abs", "real", "imag"):
                    m = max(ak, key=_KORD.get)
                    return "f" if m == "c" else m if fn != "abs" or m != "b" else "b"
                if fn in ("zero",):
                    return ak[0]
                m = max(ak, key=_KORD.get) if ak else "f"
                return m if _KORD[m] >= 2 else "f"
            if op == "if":
                return max((self.kind(v[2]), self.kind(v[3])), key=_KORD.get)
            if op == "truediv":
                m = max((self.kind(a) for a in v[1:]), key=_KORD.get)
                return m if _KORD[m] >= 2 else "f"
            ks = [self.kind(a) for a in v[1:]]
            return max(ks, key=_KORD.get) if ks else "f"
        return "f"

    # -- constructors ------------------------------------------------------
    def const(self, c):
        c = _canon_const(c)
        if isinstance(c, float) and c != c:
            return self.nan()
        return c

    def read(self, name, idx):
        return ("rd", self.aliases.get(name, name), tuple(idx))

    def nan(self):
        return ("nan",)

    def op(self, name, *args):
        args = [a for a in args]
        if name in ("sub",):
            return self.op("add", args[0], self.op("mul", -1, args[1]))
        if name == "neg":
            return self.op("mul", -1, args[0])
        if (name == "mod" and self.nonneg and isinstance(args[0], tuple) and args[0] and args[0][0] == "rd"
                and args[0][1] in self.nonneg and is_plain_const(args[1])):
            return args[0]
        if not any(is_term(a) for a in args):
            r = self._fold(name, args)
            if r is not NotImplemented:
                return r
        if name in _ASSOC:
            flat = []
            for a in args:
                if isinstance(a, tuple) and a and a[0] == name:
                    flat.extend(a[1:])
                else:
                    flat.append(a)
            args = flat
        if name in _IDENT:
            ident = _IDENT[name]
            consts = [a for a in args if not is_term(a)]
            terms = [a for a in args if is_term(a)]
            if consts:
                c = consts[0] if len(consts) == 1 else self._fold(name, consts)
                if c is NotImplemented:
                    terms = consts + terms
                elif is_plain_const(c) and c == ident:
                    pass        # x*1 -> x, x+0 -> x
                else:
                    terms = [c, *terms]
            args = terms
            if not args:
                return ident
            if len(args) == 1:
                return args[0]
        if name in ("and", "or"):
            unit = name == "and"         # and: True is the identity, or: False
            rest = [a for a in args if not (is_plain_const(a) and bool(a) == unit)]
            if any(is_plain_const(a) and bool(a) != unit for a in rest):
                return not unit          # absorbing element
            if not rest:
                return unit
            if len(rest) == 1:
                return rest[0]
            args = rest
        if name in _COMM:
            keyed = sorted(args, key=skel)
            args = keyed
        return (name, *args)

    def _fold(self, name, a):
        try:
            if name == "add":
                r = 0
                for x in a:
                    r = r + x
                return _c(r)
            if name == "mul":
                r = 1
                for x in a:
                    r = r * x
                return _c(r)
            if all(is_int(x) for x in a):
                if name == "floordiv":
                    return a[0] // a[1]
                if name == "mod":
                    return a[0] % a[1]
                if name == "pow" and is_concrete(a[1]) and a[1] >= 0:
                    return a[0] ** a[1]
                if name == "max":
                    return a[0] if a[0] >= a[1] else a[1]
                if name == "min":
                    return a[0] if a[0] <= a[1] else a[1]
            if name.startswith("cmp") and all(is_int(x) or is_boolish(x) for x in a):
                return _cmp(name[3:], a[0], a[1])
            if all(is_boolish(x) for x in a):
                if name == "and":
                    return all(a)
                if name == "or":
                    return any(a)
                if name == "not":
                    return not a[0]
        except Exception:  # noqa: BLE001
            return NotImplemented
        return NotImplemented

    def call(self, fname, *args):
        if fname == "zero":
            return 0       # pytato.zero(x): documented to be zero whatever x is (keeps a dead reference alive)
        if fname == "isnan" and len(args) == 1 and is_plain_const(args[0]):
            return args[0] != args[0]
        return ("call", fname, *args)

    def cast(self, dtype, x):
        k = dtype_kind(dtype)
        xk = self.kind(x)
        if _KORD[xk] <= _KORD[k] and not (k == "b" and xk != "b"):
            return x          # value-preserving up-cast (width not modelled)
        return ("cast", k, x)

    def select(self, c, then_thunk, else_thunk):
        if not is_term(c):
            return then_thunk() if c else else_thunk()
        return ("if", c, then_thunk(), else_thunk())

    def reduce(self, op, bounds, body):
        # a reduction over a concretely empty range is its identity element (whoever builds it: a zero-size NumPy
        # reduction folded by the reference, or a Reduce node with bounds (0, 0))
        if op in _RED_IDENT and any(is_plain_const(lo) and is_plain_const(hi) and lo >= hi for lo, hi in bounds):
            return _RED_IDENT[op]
        return Red(op, bounds, body)

    # -- equality ----------------------------------------------------------
    def eq(self, a, b, sk: Skolems):
        return teq(a, b, sk)


_RED_IDENT = {"sum": 0, "product": 1, "prod": 1, "all": True, "any": False}


def alias_map(data):
    """names of numeric inputs that are the same memory -> the first such name"""
    first, out = {}, {}
    for n in sorted(data):
        a = data[n]
        if not isinstance(a, np.ndarray) or a.size == 0:
            continue
        key = (a.__array_interface__["data"][0], a.shape, a.strides, a.dtype.str)
        if key in first:
            out[n] = first[key]
        else:
            first[key] = n
    return out


def is_concrete(x):
    return type(x) in (int, float, complex, bool) or isinstance(x, np.generic)


def is_plain_const(x):
    """a concrete (non-symbolic) Python number; never true for CrossHair symbolics"""
    return x.__class__ in (int, float, complex, bool)


def _c(x):
    return _canon_const(x) if is_concrete(x) else x


def _cmp(op, l, r):
    return {"==": l == r, "!=": l != r, "<": l < r, "<=": l <= r, ">": l > r, ">=": l >= r}[op]


def teq(a, b, sk: Skolems):
    """Structural equality of two values; index components are compared with
    ``==`` (a solver decision under CrossHair)."""
    if isinstance(a, Red) or isinstance(b, Red):
        if not (isinstance(a, Red) and isinstance(b, Red)):
            return False
        if a.op != b.op or len(a.bounds) != len(b.bounds):
            return False
        n = len(a.bounds)
        mark = sk.mark()
        try:
            for perm in itertools.permutations(range(n)):
                sk.reset(mark)
                if _red_eq(a, b, perm, sk):
                    return True
            return False
        finally:
            # Skolem indices are allocated by nesting depth: sibling reductions share them (the obligation is
            # universally quantified over every Skolem, and  forall r. P(r) and Q(r)  is  (forall r. P(r)) and
            # (forall r. Q(r)) ), only nested reductions need further ones.  Keeps a term with many reductions
            # from forking 3^(number of reductions) ways.
            sk.reset(mark)
    ta, tb = isinstance(a, tuple), isinstance(b, tuple)
    if ta and tb:
        if len(a) != len(b):
            return False
        for x, y in zip(a, b):
            if not teq(x, y, sk):
                return False
        return True
    if ta or tb:
        return False
    if isinstance(a, str) or isinstance(b, str):
        return isinstance(a, str) and isinstance(b, str) and a == b
    if a is None or b is None:
        return a is None and b is None
    if isinstance(a, float) and isinstance(b, float) and a != a and b != b:
        return True
    return a == b


def _red_eq(a, b, perm, sk):
    rs_a = [None] * len(a.bounds)
    rs_b = [None] * len(b.bounds)
    for ia, ib in enumerate(perm):
        (l1, h1), (l2, h2) = a.bounds[ia], b.bounds[ib]
        if not (teq(l1, l2, sk) and teq(h1, h2, sk)):
            return False
        r = sk.fresh()
        if not is_term(l1) and not is_term(h1):
            if not (l1 <= r < h1):
                # Skolem outside the (equal) bounds: nothing to compare here
                return True
        rs_a[ia] = r
        rs_b[ib] = r
    return teq(a.body(tuple(rs_a)), b.body(tuple(rs_b)), sk)


# ---------------------------------------------------------------------------

class NumAlg:
    """Concrete numpy-scalar algebra.  ``arrays`` maps input names to ndarrays."""
    symbolic = False

    def __init__(self, arrays):
        self.arrays = arrays

    def const(self, c):
        return c

    def nan(self):
        return np.float64("nan")

    def read(self, name, idx):
        a = self.arrays[name]
        idx = tuple(int(i) for i in idx)
        if len(idx) != a.ndim:
            raise HarnessError(f"rank mismatch reading {name}{idx} from shape {a.shape}")
        for i, n in zip(idx, a.shape):
            if not (0 <= i < n):
                raise IndexError(f"out-of-bounds read {name}{idx} shape {a.shape}")
        return a[idx]

    def op(self, name, *a):
        with np.errstate(all="ignore"):
            if name == "add":
                r = a[0]
                for x in a[1:]:
                    r = r + x
                return r
            if name == "mul":
                r = a[0]
                for x in a[1:]:
                    r = r * x
                return r
            if name == "sub":
                return a[0] - a[1]
            if name == "neg":
                return -a[0]
            if name == "truediv":
                return np.true_divide(a[0], a[1])
            if name == "floordiv":
                return np.floor_divide(a[0], a[1]) if not (is_int(a[0]) and is_int(a[1]) and type(a[0]) is int) else a[0] // a[1]
            if name == "mod":
                return np.mod(a[0], a[1]) if not (type(a[0]) is int and type(a[1]) is int) else a[0] % a[1]
            if name == "pow":
                return np.power(a[0], a[1]) if not (type(a[0]) is int and type(a[1]) is int and a[1] >= 0) else a[0] ** a[1]
            if name.startswith("cmp"):
                return _cmp(name[3:], a[0], a[1])
            if name == "and":
                r = True
                for x in a:
                    r = r and bool(x)
                return r
            if name == "or":
                r = False
                for x in a:
                    r = r or bool(x)
                return r
            if name == "not":
                return not bool(a[0])
            if name == "max":
                return np.maximum(a[0], a[1])
            if name == "min":
                return np.minimum(a[0], a[1])
            if name == "bitand":
                return a[0] & a[1]
            if name == "bitor":
                return a[0] | a[1]
            if name == "bitxor":
                return a[0] ^ a[1]
            if name == "bitnot":
                return ~a[0]
            if name == "lshift":
                return a[0] << a[1]
            if name == "rshift":
                return a[0] >> a[1]
        raise HarnessError(f"NumAlg: unknown op {name}")

    _FN = {"abs": np.abs, "sqrt": np.sqrt, "sin": np.sin, "cos": np.cos, "tan": np.tan,
           "arcsin": np.arcsin, "arccos": np.arccos, "arctan": np.arctan, "asin": np.arcsin,
           "acos": np.arccos, "atan": np.arctan, "atan2": np.arctan2, "arctan2": np.arctan2,
           "sinh": np.sinh, "cosh": np.cosh, "tanh": np.tanh, "exp": np.exp, "log": np.log,
           "isnan": np.isnan, "real": np.real, "imag": np.imag, "conj": np.conj,
           "floor": np.floor, "ceil": np.ceil, "fabs": np.abs}

    def call(self, fname, *a):
        with np.errstate(all="ignore"):
            if fname == "zero":
                return np.asarray(a[0]).dtype.type(0)
            if fname in self._FN:
                return self._FN[fname](*a)
        raise HarnessError(f"NumAlg: unknown function {fname}")

    def cast(self, dtype, x):
        with np.errstate(all="ignore"):
            dt = np.dtype(dtype)
            if dt.kind != "c" and isinstance(x, (complex, np.complexfloating)):
                x = x.real
            return dt.type(x)

    def select(self, c, t, e):
        return t() if bool(c) else e()

    def reduce(self, op, bounds, body):
        rngs = [range(int(lo), int(hi)) for lo, hi in bounds]
        vals = [body(tuple(r)) for r in itertools.product(*rngs)]
        with np.errstate(all="ignore"):
            if op == "sum":
                r = 0
                for v in vals:
                    r = r + v
                return r
            if op == "product":
                r = 1
                for v in vals:
                    r = r * v
                return r
            if op == "max":
                if not vals:
                    return -np.inf
                r = vals[0]
                for v in vals[1:]:
                    r = np.maximum(r, v)
                return r
            if op == "min":
                if not vals:
                    return np.inf
                r = vals[0]
                for v in vals[1:]:
                    r = np.minimum(r, v)
                return r
            if op == "all":
                return all(bool(v) for v in vals)
            if op == "any":
                return any(bool(v) for v in vals)
        raise HarnessError(f"NumAlg: unknown reduction {op}")

    def eq(self, a, b, sk=None):
        return num_close(a, b)


def num_close(a, b, rtol=1e-5, atol=1e-8, scale=1.0):
    a = np.asarray(a)
    b = np.asarray(b)
    if a.dtype.kind in "biu" and b.dtype.kind in "biu":
        return bool(np.all(a.astype(np.int64) == b.astype(np.int64)))
    with np.errstate(all="ignore"):
        return bool(np.allclose(a, b, rtol=rtol, atol=atol * max(1.0, scale), equal_nan=True))
