"""Real-valued algebra over z3 terms (C06): inputs are uninterpreted functions
Int^n -> Real applied at concrete indices, + - * are interpreted, x / y is
x * inv(y) with ``inv`` uninterpreted (z3 answers 'unknown' on division by a
symbolic real for valid identities), every other operation is an uninterpreted
function, reductions are unrolled (concrete small extents)."""
from __future__ import annotations

import itertools

import z3

from pv.drive import HarnessError


class Z3Alg:
    symbolic = True

    def __init__(self):
        self.funcs = {}
        self.reads = {}      # (name, idx) -> z3 const
        self.inv = z3.Function("inv", z3.RealSort(), z3.RealSort())

    # -- helpers --------------------------------------------------------------
    def _uf(self, name, n, boolean=False):
        key = (name, n, boolean)
        if key not in self.funcs:
            self.funcs[key] = z3.Function(f"uf_{name}_{n}", *([z3.RealSort()] * n),
                                          z3.BoolSort() if boolean else z3.RealSort())
        return self.funcs[key]

    def real(self, v):
        if isinstance(v, bool):
            return z3.RealVal(1 if v else 0)
        if isinstance(v, z3.BoolRef):
            return z3.If(v, z3.RealVal(1), z3.RealVal(0))
        if isinstance(v, z3.ExprRef):
            return v
        if isinstance(v, complex):
            if v.imag != 0:
                raise HarnessError("complex constants are outside the real-algebra encoding")
            v = v.real
        if isinstance(v, int):
            return z3.RealVal(v)
        f = float(v)
        if f != f or f in (float("inf"), float("-inf")):
            raise HarnessError("non-finite constant in real algebra")
        return z3.RealVal(repr(f))

    def boolean(self, v):
        if isinstance(v, z3.BoolRef):
            return v
        if isinstance(v, z3.ExprRef):
            return v != 0
        return z3.BoolVal(bool(v))

    @staticmethod
    def _concrete(v):
        return not isinstance(v, z3.ExprRef)

    # -- algebra interface ------------------------------------------------------
    def const(self, c):
        import numpy as np
        if isinstance(c, np.generic):
            c = c.item()
        return c

    def nan(self):
        raise HarnessError("NaN constant in real algebra")

    def read(self, name, idx):
        idx = tuple(int(i) for i in idx)
        key = (name, idx)
        if key not in self.reads:
            self.reads[key] = z3.Real(f"{name}[{','.join(map(str, idx))}]")
        return self.reads[key]

    def op(self, name, *a):
        if all(self._concrete(x) for x in a) and name in ("add", "mul", "sub", "neg"):
            if name == "add":
                return sum(a[1:], a[0])
            if name == "mul":
                r = a[0]
                for x in a[1:]:
                    r = r * x
                return r
            if name == "sub":
                return a[0] - a[1]
            return -a[0]
        if name == "add":
            r = self.real(a[0])
            for x in a[1:]:
                r = r + self.real(x)
            return r
        if name == "mul":
            r = self.real(a[0])
            for x in a[1:]:
                r = r * self.real(x)
            return r
        if name == "sub":
            return self.real(a[0]) - self.real(a[1])
        if name == "neg":
            return -self.real(a[0])
        if name == "truediv":
            return self.real(a[0]) * self.inv(self.real(a[1]))
        if name == "pow":
            if self._concrete(a[1]) and float(a[1]) == int(a[1]) and 0 <= int(a[1]) <= 4:
                r = z3.RealVal(1)
                for _ in range(int(a[1])):
                    r = r * self.real(a[0])
                return r
            return self._uf("pow", 2)(self.real(a[0]), self.real(a[1]))
        if name.startswith("cmp"):
            l, r = self.real(a[0]), self.real(a[1])
            return {"==": l == r, "!=": l != r, "<": l < r, "<=": l <= r, ">": l > r, ">=": l >= r}[name[3:]]
        if name == "and":
            return z3.And(*[self.boolean(x) for x in a])
        if name == "or":
            return z3.Or(*[self.boolean(x) for x in a])
        if name == "not":
            return z3.Not(self.boolean(a[0]))
        if name in ("max", "min"):
            l, r = self.real(a[0]), self.real(a[1])
            return z3.If(l >= r, l, r) if name == "max" else z3.If(l <= r, l, r)
        return self._uf(name, len(a))(*[self.real(x) for x in a])

    def call(self, fname, *a):
        if fname == "zero":
            return 0
        if fname == "isnan":
            return self._uf("isnan", len(a), boolean=True)(*[self.real(x) for x in a])
        return self._uf("call_" + fname, len(a))(*[self.real(x) for x in a])

    def cast(self, dtype, x):
        import numpy as np
        k = np.dtype(dtype).kind
        if k in "fc":
            return x           # reals: width-only / up-casts are the identity
        if k == "b":
            return self.boolean(x)
        return self._uf("cast_int", 1)(self.real(x)) if not self._concrete(x) else int(x)

    def select(self, c, t, e):
        if self._concrete(c):
            return t() if c else e()
        return z3.If(self.boolean(c), self.real(t()), self.real(e()))

    def reduce(self, op, bounds, body):
        rngs = [range(int(lo), int(hi)) for lo, hi in bounds]
        vals = [body(tuple(r)) for r in itertools.product(*rngs)]
        if op == "sum":
            return self.op("add", *vals) if len(vals) > 1 else (vals[0] if vals else 0)
        if op == "product":
            return self.op("mul", *vals) if len(vals) > 1 else (vals[0] if vals else 1)
        if op in ("max", "min"):
            if not vals:
                raise HarnessError("empty max/min reduction")
            r = vals[0]
            for v in vals[1:]:
                r = self.op(op, r, v)
            return r
        if op == "all":
            return z3.And(*[self.boolean(v) for v in vals]) if vals else True
        if op == "any":
            return z3.Or(*[self.boolean(v) for v in vals]) if vals else False
        raise HarnessError(op)
