"""eval_pytato: the documented meaning of each pytato node type, read from the
node's fields, evaluated at one index.  IndexLambda nodes are evaluated with
``pv.sem.ilsem``.  Independent of pytato's lowering code."""
from __future__ import annotations

import numpy as np

from pv.drive import HarnessError
from pv.sem.alg import is_int
from pv.sem.ilsem import Ev, Unsupported
from pv.sem.symnp import _bidx, broadcast_shapes, delin, lin


class PtEval:
    """``alg``: value algebra.  ``sizes``: SizeParam name -> int (may be symbolic).
    ``dwname``: callable(DataWrapper) -> name used for reads of wrapped data.
    ``subst``: optional dict id(node)->callable(idx)->value overriding a node
    (used e.g. for received data in distributed programs)."""

    def __init__(self, alg, sizes=None, dwname=None, subst=None, phname=None, phvals=None):
        self.alg = alg
        self.phname = phname if phname is not None else {}
        self.phvals = phvals or {}
        self.sizes = sizes or {}
        self.dwname = dwname or _default_dwname
        self.subst = subst or {}
        self._param_stack = []

    # -- shapes -------------------------------------------------------------
    def dim(self, d):
        from pytato.array import Array
        if isinstance(d, Array):
            v = self.at(d, ())
            return v
        return int(d) if isinstance(d, np.integer) else d

    def shape(self, node):
        return tuple(self.dim(d) for d in node.shape)

    def _frozen_at(self):
        """``at`` bound to the *current* parameter stack: reductions are evaluated
        lazily (lock-step comparison happens later), so closures must not see
        whatever stack is current when they finally run."""
        stack = self._param_stack

        def at(node, idx):
            saved = self._param_stack
            self._param_stack = stack
            try:
                return self.at(node, idx)
            finally:
                self._param_stack = saved
        return at

    # -- values -------------------------------------------------------------
    def at(self, node, idx):
        import pytato.array as A
        idx = tuple(idx)
        alg = self.alg
        sub = self.subst.get(id(node))
        if sub is not None:
            return sub(idx)
        if isinstance(node, A.Placeholder):
            for frame in reversed(self._param_stack[-1:]):
                if node.name in frame:
                    bound, outer_stack = frame[node.name]
                    saved = self._param_stack
                    self._param_stack = outer_stack
                    try:
                        return self.at(bound, idx)
                    finally:
                        self._param_stack = saved
            if node.name in self.phvals:
                return self.phvals[node.name](idx)
            return alg.read(self.phname.get(node.name, node.name), idx)
        if isinstance(node, A.SizeParam):
            if node.name in self.sizes:
                return self.sizes[node.name]
            return alg.read(node.name, ())
        if isinstance(node, A.DataWrapper):
            return alg.read(self.dwname(node), idx)
        if isinstance(node, A.IndexLambda):
            env = {f"_{d}": v for d, v in enumerate(idx)}
            bindings = node.bindings
            fat = self._frozen_at()
            ev = Ev(alg, lambda name, i, e: fat(bindings[name], i))
            return ev(node.expr, env)
        if isinstance(node, A.NamedArray):
            from pytato.function import NamedCallResult
            from pytato.loopy import LoopyCallResult
            if isinstance(node, NamedCallResult):
                return self._call_result(node, idx)
            if isinstance(node, LoopyCallResult):
                return self._loopy_call_result(node, idx)
            return self.at(node._container._data[node.name], idx)
        if isinstance(node, A.Roll):
            n = self.dim(node.array.shape[node.axis])
            j = list(idx)
            j[node.axis] = (idx[node.axis] - node.shift) % n
            return self.at(node.array, j)
        if isinstance(node, A.AxisPermutation):
            src = [None] * node.array.ndim
            for to, frm in enumerate(node.axis_permutation):
                src[frm] = idx[to]
            return self.at(node.array, src)
        if isinstance(node, A.Reshape):
            old = self.shape(node.array)
            new = tuple(self.dim(d) for d in node.newshape)
            order = node.order.upper()
            if order not in ("C", "F"):
                raise Unsupported("reshape order")
            return self.at(node.array, delin(lin(idx, new, order), old, order))
        if isinstance(node, A.BasicIndex):
            src = []
            p = 0
            for ix, n in zip(node.indices, node.array.shape):
                if isinstance(ix, A.NormalizedSlice):
                    src.append(self.dim(ix.start) + idx[p] * ix.step)
                    p += 1
                else:
                    ix = int(ix) if isinstance(ix, np.integer) else ix
                    src.append(ix if ix >= 0 else ix + self.dim(n))
            return self.at(node.array, src)
        if isinstance(node, (A.AdvancedIndexInContiguousAxes, A.AdvancedIndexInNoncontiguousAxes)):
            return self._adv(node, idx)
        if isinstance(node, A.Stack):
            k = idx[node.axis]
            rest = idx[:node.axis] + idx[node.axis + 1:]
            for i, x in enumerate(node.arrays[:-1]):
                if k == i:
                    return self._cast(node.dtype, x, self.at(x, rest))
            return self._cast(node.dtype, node.arrays[-1], self.at(node.arrays[-1], rest))
        if isinstance(node, A.Concatenate):
            ax = node.axis
            k = idx[ax]
            off = 0
            for x in node.arrays[:-1]:
                n = self.dim(x.shape[ax])
                if k < off + n:
                    return self._cast(node.dtype, x, self.at(x, idx[:ax] + (k - off,) + idx[ax + 1:]))
                off = off + n
            x = node.arrays[-1]
            return self._cast(node.dtype, x, self.at(x, idx[:ax] + (k - off,) + idx[ax + 1:]))
        if isinstance(node, A.Einsum):
            return self._einsum(node, idx)
        if isinstance(node, A.CSRMatmul):
            return self._csr(node, idx)
        from pytato.distributed.nodes import DistributedRecv, DistributedSendRefHolder
        if isinstance(node, DistributedSendRefHolder):
            return self.at(node.passthrough_data, idx)
        if isinstance(node, DistributedRecv):
            return alg.read(f"recv:{node.src_rank}:{node.comm_tag}", idx)
        raise Unsupported(f"eval_pytato: node type {type(node).__name__}")

    def _cast(self, dtype, operand, v):
        if operand.dtype != dtype:
            return self.alg.cast(dtype, v)
        return v

    def _adv(self, node, idx):
        import pytato.array as A
        alg = self.alg
        indices = node.indices
        adv = [i for i, ix in enumerate(indices) if not isinstance(ix, A.NormalizedSlice)]
        bshape = broadcast_shapes(*[self.shape(indices[i]) for i in adv if isinstance(indices[i], A.Array)])
        nb = len(bshape)
        contiguous = isinstance(node, A.AdvancedIndexInContiguousAxes)
        n_pre = sum(1 for i, ix in enumerate(indices) if isinstance(ix, A.NormalizedSlice) and i < adv[0])
        if contiguous:
            bidx = idx[n_pre:n_pre + nb]
            slice_pos = list(idx[:n_pre]) + list(idx[n_pre + nb:])
        else:
            bidx = idx[:nb]
            slice_pos = list(idx[nb:])
        src = []
        p = 0
        for ix, n in zip(indices, node.array.shape):
            n = self.dim(n)
            if isinstance(ix, A.NormalizedSlice):
                src.append(self.dim(ix.start) + slice_pos[p] * ix.step)
                p += 1
            elif isinstance(ix, A.Array):
                from pytato.tags import AssumeNonNegative
                v = self.at(ix, _bidx(self.shape(ix), nb, bidx))
                if ix.tags_of_type(AssumeNonNegative):
                    src.append(v)
                else:
                    src.append(alg.op("mod", v, n))
            else:
                ix = int(ix)
                src.append(ix if ix >= 0 else ix + n)
        return self.at(node.array, src)

    def _einsum(self, node, idx):
        import pytato.array as A
        alg = self.alg
        lens = {}
        for arg, ds in zip(node.args, node.access_descriptors):
            shp = self.shape(arg)
            for d, n in zip(ds, shp):
                if d not in lens or lens[d] == 1:
                    lens[d] = n
        red = sorted({d for ds in node.access_descriptors for d in ds
                      if isinstance(d, A.EinsumReductionAxis)}, key=lambda d: d.dim)
        fat = self._frozen_at()

        def term(rs):
            fs = []
            for arg, ds in zip(node.args, node.access_descriptors):
                shp = self.shape(arg)
                sub = []
                for ax, d in enumerate(ds):
                    v = idx[d.dim] if isinstance(d, A.EinsumElementwiseAxis) else rs[red.index(d)]
                    if shp[ax] == 1:
                        v = 0       # broadcast (or trivially 0) axis
                    sub.append(v)
                fs.append(self._cast(node.dtype, arg, fat(arg, sub)))
            return alg.op("mul", *fs) if len(fs) > 1 else fs[0]
        if not red:
            return term(())
        return alg.reduce("sum", [(0, lens[d]) for d in red], term)

    def _csr(self, node, idx):
        alg = self.alg
        m = node.matrix
        i = idx[0]
        lo = self.at(m.row_starts, (i,))
        hi = self.at(m.row_starts, (i + 1,))

        fat = self._frozen_at()

        def body(rs):
            k, = rs
            col = fat(m.elem_col_indices, (k,))
            return alg.op("mul", self._cast(node.dtype, m.elem_values, fat(m.elem_values, (k,))),
                          self._cast(node.dtype, node.array, fat(node.array, (col, *idx[1:]))))
        return alg.reduce("sum", [(lo, hi)], body)

    def _loopy_call_result(self, node, idx):
        """documented meaning of a call to a hand-written loopy kernel: the callee
        kernel (read into a kernel model) applied to the bound arrays"""
        import pytato.array as A
        from pv.sem.knlsem import KernelModel
        call = node._container
        key = (id(call.translation_unit), call.entrypoint)
        cache = self.__dict__.setdefault("_callee_models", {})
        if key not in cache:
            cache[key] = KernelModel(call.translation_unit, entry=call.entrypoint)
        callee = cache[key]
        fat = self._frozen_at()
        alg = self.alg
        bindings = call.bindings

        class CalleeAlg:
            def __getattr__(self_, n):
                return getattr(alg, n)

            def read(self_, aname, cidx):
                b = bindings[aname]
                if isinstance(b, A.Array):
                    return fat(b, cidx)
                return alg.const(b)
        return callee.at(CalleeAlg(), node.name, idx)

    def _call_result(self, node, idx):
        call = node._container
        fdef = call.function
        frame = {name: (bound, self._param_stack) for name, bound in call.bindings.items()}
        body = fdef.returns[node.name]
        saved = self._param_stack
        self._param_stack = [frame]
        try:
            return self.at(body, idx)
        finally:
            self._param_stack = saved


def _default_dwname(dw):
    if dw.name is not None:
        return dw.name
    raise HarnessError("unnamed DataWrapper needs a dwname mapping")
