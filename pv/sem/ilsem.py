"""Evaluator for pymbolic scalar expressions as they occur in
``IndexLambda.expr`` and in loopy instructions, generic over a value algebra."""
from __future__ import annotations

import numpy as np
import pymbolic.primitives as p

from pv.drive import HarnessError
from pv.sem.alg import Red, is_boolish, is_int, is_term  # noqa: F401

try:
    from loopy.symbolic import Reduction as LpReduction, TypeCast as LpTypeCast
    from loopy.symbolic import ResolvedFunction, SubArrayRef  # noqa: F401
except Exception:  # pragma: no cover
    LpReduction = LpTypeCast = ResolvedFunction = ()


_REDOP = {"SumReductionOperation": "sum", "ProductReductionOperation": "product",
          "MaxReductionOperation": "max", "MinReductionOperation": "min",
          "AllReductionOperation": "all", "AnyReductionOperation": "any"}
_LP_REDOP = {"sum": "sum", "product": "product", "max": "max", "min": "min", "all": "all", "any": "any"}


class Unsupported(Exception):
    pass


def redop_name(op):
    n = type(op).__name__
    if n in _REDOP:
        return _REDOP[n]
    raise Unsupported(f"reduction operation {n}")


class Ev:
    """``lookup(name, idx, env)`` resolves array reads and free variables;
    ``red_bounds(iname, env)`` gives loopy reduction bounds (kernels only)."""

    def __init__(self, alg, lookup, red_bounds=None, callres=None):
        self.alg = alg
        self.lookup = lookup
        self.red_bounds = red_bounds
        self.callres = callres

    def __call__(self, e, env):
        from pytato.scalar_expr import Reduce, TypeCast
        alg = self.alg
        if isinstance(e, (bool, np.bool_)):
            return bool(e)
        if isinstance(e, (int, np.integer)):
            return int(e)
        if isinstance(e, (float, complex, np.floating, np.complexfloating)):
            return alg.const(e)
        if isinstance(e, p.Variable):
            if e.name in env:
                return env[e.name]
            return self.lookup(e.name, (), env)
        if isinstance(e, p.Subscript):
            idx = tuple(self(i, env) for i in e.index_tuple)
            if not isinstance(e.aggregate, p.Variable):
                raise Unsupported("subscript of non-variable")
            return self.lookup(e.aggregate.name, idx, env)
        if isinstance(e, p.Sum):
            return alg.op("add", *[self(c, env) for c in e.children])
        if isinstance(e, p.Product):
            return alg.op("mul", *[self(c, env) for c in e.children])
        if isinstance(e, p.Quotient):
            return alg.op("truediv", self(e.numerator, env), self(e.denominator, env))
        if isinstance(e, p.FloorDiv):
            return alg.op("floordiv", self(e.numerator, env), self(e.denominator, env))
        if isinstance(e, p.Remainder):
            return alg.op("mod", self(e.numerator, env), self(e.denominator, env))
        if isinstance(e, p.Power):
            return alg.op("pow", self(e.base, env), self(e.exponent, env))
        if isinstance(e, p.Comparison):
            return alg.op("cmp" + e.operator, self(e.left, env), self(e.right, env))
        if isinstance(e, p.LogicalAnd):
            return alg.op("and", *[self(c, env) for c in e.children])
        if isinstance(e, p.LogicalOr):
            return alg.op("or", *[self(c, env) for c in e.children])
        if isinstance(e, p.LogicalNot):
            return alg.op("not", self(e.child, env))
        if isinstance(e, p.BitwiseAnd):
            return self._fold2("bitand", e.children, env)
        if isinstance(e, p.BitwiseOr):
            return self._fold2("bitor", e.children, env)
        if isinstance(e, p.BitwiseXor):
            return self._fold2("bitxor", e.children, env)
        if isinstance(e, p.BitwiseNot):
            return alg.op("bitnot", self(e.child, env))
        if isinstance(e, p.LeftShift):
            return alg.op("lshift", self(e.shiftee, env), self(e.shift, env))
        if isinstance(e, p.RightShift):
            return alg.op("rshift", self(e.shiftee, env), self(e.shift, env))
        if isinstance(e, p.Max):
            return self._fold2("max", e.children, env)
        if isinstance(e, p.Min):
            return self._fold2("min", e.children, env)
        if isinstance(e, p.If):
            c = self(e.condition, env)
            return alg.select(c, lambda: self(e.then, env), lambda: self(e.else_, env))
        if isinstance(e, p.NaN):
            return alg.nan()
        if isinstance(e, TypeCast):
            return alg.cast(e.dtype, self(e.inner_expr, env))
        if LpTypeCast and isinstance(e, LpTypeCast):
            return alg.cast(e.type.numpy_dtype if hasattr(e.type, "numpy_dtype") else e.type, self(e.child, env))
        if isinstance(e, p.Call):
            fn = e.function
            if ResolvedFunction and isinstance(fn, ResolvedFunction):
                fn = fn.function
            name = fn.name if isinstance(fn, p.Variable) else str(fn)
            if name.startswith("pytato.c99."):
                name = name[len("pytato.c99."):]
            elif name == "pytato.zero":
                name = "zero"
            if self.callres is not None:
                r = self.callres(name, e.parameters, env, self)
                if r is not NotImplemented:
                    return r
            return alg.call(name, *[self(a, env) for a in e.parameters])
        if isinstance(e, Reduce):
            names = sorted(e.bounds)
            bnds = [(self(e.bounds[n][0], env), self(e.bounds[n][1], env)) for n in names]

            def body(rs, e=e, env=env, names=names):
                env2 = dict(env)
                env2.update(zip(names, rs))
                return self(e.inner_expr, env2)
            return alg.reduce(redop_name(e.op), bnds, body)
        if LpReduction and isinstance(e, LpReduction):
            names = list(e.inames)
            if self.red_bounds is None:
                raise Unsupported("loopy reduction without domain information")
            bnds = [self.red_bounds(n, env) for n in names]
            opn = type(e.operation).__name__.replace("ReductionOperation", "").lower()
            if opn not in _LP_REDOP:
                opn = str(e.operation).split("(")[0]
            if opn not in _LP_REDOP:
                raise Unsupported(f"loopy reduction {e.operation}")

            def body(rs, e=e, env=env, names=names):  # noqa: F811
                env2 = dict(env)
                env2.update(zip(names, rs))
                return self(e.expr, env2)
            return alg.reduce(_LP_REDOP[opn], bnds, body)
        raise Unsupported(f"scalar expression node {type(e).__name__}")

    def _fold2(self, name, children, env):
        vals = [self(c, env) for c in children]
        r = vals[0]
        for v in vals[1:]:
            r = self.alg.op(name, r, v)
        return r
