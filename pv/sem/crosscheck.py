"""Second opinion for direct SMT queries: the z3 solver's assertions are dumped
as SMT-LIB2 and handed to the cvc5 binary (a different implementation).  A
disagreement makes the obligation inconclusive; 'unknown'/timeouts of cvc5 are
counted, not treated as disagreement."""
from __future__ import annotations

import os
import subprocess
import tempfile


def cvc5_verdict(solver, timeout_s=20):
    txt = solver.to_smt2()
    # z3 emits (check-sat) at the end; make the logic explicit for cvc5
    txt = "(set-logic ALL)\n" + txt
    fd, path = tempfile.mkstemp(suffix=".smt2", prefix="verif-xc-")
    try:
        with os.fdopen(fd, "w") as f:
            f.write(txt)
        try:
            out = subprocess.run(["cvc5", "--lang=smt2", f"--tlimit={int(timeout_s * 1000)}", path],
                                 capture_output=True, text=True, timeout=timeout_s + 5)
        except (subprocess.TimeoutExpired, FileNotFoundError):
            return "unknown"
        first = (out.stdout.strip().splitlines() or ["unknown"])[0].strip()
        if "(error" in out.stdout or "(error" in out.stderr:
            return "error"
        return first if first in ("sat", "unsat") else "unknown"
    finally:
        try:
            os.unlink(path)
        except OSError:
            pass
