"""Simulated MPI for the distributed properties.

* :func:`install` puts a fake ``mpi4py`` into ``sys.modules`` (pytato imports
  it lazily) and stubs ``pyopencl.array.to_device``.
* :func:`run_collective` runs a function on N simulated ranks (threads) with
  working ``allreduce/bcast/gather/barrier`` -- used for the *partitioning*
  phase, which is collective.
* :class:`Sim` runs the real ``execute_distributed_partition`` on every rank
  under a *controlled* message layer: ``Request.Waitsome`` returns a non-empty
  subset of the posted receives whose send has been posted, chosen by the
  caller's ``choose`` callback (the symbolic schedule), and the order in which
  ranks are advanced is chosen the same way.  A rank that would block is
  unwound and later re-executed deterministically from its recorded choices, so
  no threads run under the solver.
"""
from __future__ import annotations

import sys
import threading
import types


class Op:
    def __init__(self, fn):
        self.fn = fn

    @staticmethod
    def Create(fn, commute=True):  # noqa: N802
        return Op(fn)

    def Free(self):  # noqa: N802
        pass


class _World:
    def __init__(self, size):
        self.size = size
        self.barrier_ = threading.Barrier(size)
        self.slots = [None] * size


class CollectiveComm:
    def __init__(self, world, rank):
        self.world, self.rank, self.size = world, rank, world.size

    def Get_rank(self):  # noqa: N802
        return self.rank

    def Get_size(self):  # noqa: N802
        return self.size

    def _exchange(self, val):
        w = self.world
        w.slots[self.rank] = val
        w.barrier_.wait()
        vals = list(w.slots)
        w.barrier_.wait()
        return vals

    def allreduce(self, val, op=None):
        vals = self._exchange(val)
        acc = vals[0]
        for v in vals[1:]:
            acc = op.fn(acc, v, None) if op is not None else acc + v
        return acc

    def bcast(self, val, root=0):
        return self._exchange(val)[root]

    def gather(self, val, root=0):
        vals = self._exchange(val)
        return vals if self.rank == root else None

    def allgather(self, val):
        return self._exchange(val)

    def barrier(self):
        self.world.barrier_.wait()

    Barrier = barrier


_STATE = {"waitsome": None, "to_device": None}


def install():
    if "mpi4py" in sys.modules and getattr(sys.modules["mpi4py"], "_verif_fake", False):
        return sys.modules["mpi4py.MPI"]
    m = types.ModuleType("mpi4py")
    m._verif_fake = True
    MPI = types.ModuleType("mpi4py.MPI")  # noqa: N806
    MPI.Op = Op

    class Request:
        @staticmethod
        def Waitsome(reqs):  # noqa: N802
            return _STATE["waitsome"](reqs)
    MPI.Request = Request
    MPI.SUM = Op(lambda a, b, _: a + b)
    MPI.MAX = Op(lambda a, b, _: max(a, b))
    m.MPI = MPI
    sys.modules["mpi4py"] = m
    sys.modules["mpi4py.MPI"] = MPI
    # pyopencl.array.to_device is only used to move a received buffer to the device
    import pyopencl.array as cla
    cla.to_device = lambda queue, buf, allocator=None: _STATE["to_device"](buf)
    return MPI


def run_collective(size, fn):
    """fn(comm) on `size` simulated ranks; -> list of ('ok', result) | ('exc', exception)"""
    w = _World(size)
    out = [None] * size

    def tgt(r):
        try:
            out[r] = ("ok", fn(CollectiveComm(w, r)))
        except BaseException as e:  # noqa: BLE001
            out[r] = ("exc", e)
            w.barrier_.abort()
    ths = [threading.Thread(target=tgt, args=(r,)) for r in range(size)]
    for t in ths:
        t.start()
    for t in ths:
        t.join()
    return out


class Blocked(Exception):
    pass


class _Req:
    def __init__(self, key, buf):
        self.key, self.buf = key, buf


class _SendReq:
    def Wait(self):  # noqa: N802
        pass


class Sim:
    """parts: per-rank DistributedGraphPartition; choose(lo, hi) -> int in [lo, hi];
    run_part(rank, partition, part, inputs) -> dict of outputs; inputs: per-rank dict."""

    def __init__(self, parts, choose, run_part, inputs):
        self.parts, self.choose, self.run_part, self.inputs = parts, choose, run_part, inputs
        self.n = len(parts)
        self.sent = {}                 # (src, dst, tag) -> payload
        self.script = [[] for _ in range(self.n)]
        self.done = {}
        self.trace = []
        self.errors = []
        self.transitions = 0
        self.part_exec = [[] for _ in range(self.n)]

    class Comm:
        def __init__(self, sim, rank):
            self.sim, self.rank, self.size, self.k = sim, rank, sim.n, 0
            self.bufs = {}

        def Get_rank(self):  # noqa: N802
            return self.rank

        def Irecv(self, buf, source, tag):  # noqa: N802
            return _Req((source, self.rank, tag), buf)

        def Isend(self, data, dest, tag):  # noqa: N802
            key = (self.rank, dest, tag)
            if key in self.sim.sent:
                if self.sim.sent[key] is not data and not self.sim.same_payload(self.sim.sent[key], data):
                    self.sim.errors.append(f"message {key} sent twice with different payloads")
            else:
                self.sim.sent[key] = data
                self.sim.progress = True
                self.sim.transitions += 1
                self.sim.trace.append(("send", key))
            return _SendReq()

    def same_payload(self, a, b):
        return True

    def _waitsome(self, comm, reqs):
        sc = self.script[comm.rank]
        if comm.k < len(sc):
            idxs = sc[comm.k]
        else:
            deliverable = [i for i, r in enumerate(reqs) if r.key in self.sent]
            if not deliverable:
                raise Blocked()
            # non-empty subset, chosen bit by bit; the last bit is forced if nothing was picked yet
            idxs = []
            for j, i in enumerate(deliverable):
                last = j == len(deliverable) - 1
                if last and not idxs:
                    idxs.append(i)
                elif self.choose(0, 1) == 1:
                    idxs.append(i)
            sc.append(idxs)
            self.progress = True
            self.transitions += 1
            self.trace.append(("recv", comm.rank, tuple(reqs[i].key for i in idxs)))
        comm.k += 1
        for i in idxs:
            comm.bufs[id(reqs[i].buf)] = self.sent[reqs[i].key]
        return idxs

    def run_rank(self, r):
        import pytato as pt
        comm = Sim.Comm(self, r)
        _STATE["waitsome"] = lambda reqs: self._waitsome(comm, reqs)
        _STATE["to_device"] = lambda buf: comm.bufs[id(buf)]
        partition = self.parts[r]
        executed = []

        def mk(part):
            def prg(queue, allocator=None, **kw):
                executed.append(part.pid)
                return None, self.run_part(r, partition, part, kw)
            return prg
        prgs = {pid: mk(p) for pid, p in partition.parts.items()}
        try:
            res = pt.execute_distributed_partition(partition, prgs, None, comm, input_args=dict(self.inputs[r]))
        except Blocked:
            return False
        self.part_exec[r] = executed
        self.done[r] = res
        return True

    def run(self):
        blocked = set()
        while len(self.done) < self.n:
            cands = [r for r in range(self.n) if r not in self.done and r not in blocked]
            if not cands:
                return "DEADLOCK"
            k = 0
            if len(cands) > 1:
                # choose which rank advances next (one bool per candidate but the last)
                for j in range(len(cands) - 1):
                    if self.choose(0, 1) == 1:
                        k = j
                        break
                else:
                    k = len(cands) - 1
            r = cands[k]
            self.progress = False
            fin = self.run_rank(r)
            if fin or self.progress:
                blocked.clear()
            if not fin:
                blocked.add(r)
        # every send matched exactly once
        recvd = [key for t in self.trace if t[0] == "recv" for key in t[2]]
        if sorted(recvd) != sorted(set(recvd)):
            self.errors.append("a message was received twice")
        if set(recvd) != set(self.sent):
            self.errors.append(f"unmatched sends: {sorted(set(self.sent) - set(recvd))}")
        return "OK" if not self.errors else "ERROR"
