"""pv -- solver-based checking of inducer/pytato (see ../DESIGN.md).

Import order matters: ``pv.env`` must be imported before pytato so that the
repository under test (``$VERIF_REPO``, default /repo) is the one on sys.path.
"""
