"""Program corpus: each program is written once against a NumPy-like library
object ``L`` and read three ways:

* ``PtLib``   -- builds the pytato DAG through the public API (real code);
* ``SymNP``   -- NumPy's documented semantics pointwise (reference meaning);
* real NumPy  -- concrete oracle (validation / replay).

A program is ``Prog(name, inputs, fn)`` with ``inputs = [(name, shape, dtype,
kind)]`` (kind 'ph' placeholder, 'dw' data wrapper) and ``fn(L, **arrays) ->
{output name: array}``.
"""
from __future__ import annotations

import random
from dataclasses import dataclass, field

import numpy as np

F64, F32, I64, I32, C128, B = np.float64, np.float32, np.int64, np.int32, np.complex128, np.bool_


@dataclass
class Prog:
    name: str
    inputs: list
    fn: object
    tags: tuple = ()          # features, e.g. "reduction", "advidx", "complex", "static"
    nonneg: tuple = ()        # names of inputs used as advanced indices assumed non-negative
    index_ranges: dict = field(default_factory=dict)   # input name -> (lo, hi) for numeric replay
    fixed_data: dict = field(default_factory=dict)     # input name -> concrete array used for numeric runs


class PtLib:
    """pytato under NumPy-like names"""
    is_pytato = True

    def __init__(self):
        import pytato as pt
        self.pt = pt

    def __getattr__(self, n):
        return getattr(self.pt, {"max": "amax", "min": "amin", "absolute": "abs"}.get(n, n))

    def astype(self, a, dtype):
        return a.astype(dtype)

    def negative(self, a):
        return -a

    def power(self, a, b):
        return a ** b

    def add(self, a, b):
        return a + b

    def multiply(self, a, b):
        return a * b

    def subtract(self, a, b):
        return a - b

    def divide(self, a, b):
        return a / b

    def arange(self, *a, dtype=None):
        return self.pt.arange(*a, dtype=dtype or np.int64)

    def csr_matmul(self, shape, elem_values, elem_col_indices, row_starts, x):
        return self.pt.make_csr_matrix(shape, elem_values, elem_col_indices, row_starts) @ x

    def callee_rowsum(self, a, b):
        from pytato.loopy import call_loopy
        return call_loopy(_callee("rowsum", tuple(a.shape)), {"b": b, "a": a}, "rowsum")["out"]   # (bindings deliberately not in sorted order)

    def callee_sq_and_neg(self, a):
        from pytato.loopy import call_loopy
        r = call_loopy(_callee("sqneg", tuple(a.shape)), {"a": a}, "sqneg")
        return r["sq"], r["ng"]

    def callee_scaled(self, a, alpha):
        """alpha*a + 1 through a callee whose scalar argument is bound to a Python number"""
        from pytato.loopy import call_loopy
        return call_loopy(_callee("scaled", tuple(a.shape)), {"alpha": alpha, "a": a}, "scaled")["out"]

    def handmade_sub(self, x, y):
        """x - y as a hand-built IndexLambda whose bindings are not inserted in sorted-name order"""
        import pymbolic.primitives as prim
        from pytato.array import make_index_lambda
        idx = tuple(prim.Variable(f"_{k}") for k in range(x.ndim))
        return make_index_lambda(prim.Variable("minuend")[idx] - prim.Variable("base")[idx],
                                 {"minuend": x, "base": y}, x.shape, x.dtype)

    def handmade_weighted(self, arrs):
        """sum_k (k+1)*arrs[k] as one IndexLambda with bindings _in0.._in{n-1} in numeric insertion order
        (for n > 10 that is not the lexicographic order)"""
        import pymbolic.primitives as prim
        from pytato.array import make_index_lambda
        idx = tuple(prim.Variable(f"_{k}") for k in range(arrs[0].ndim))
        e = 0
        for k in range(len(arrs)):
            e = e + (k + 1) * prim.Variable(f"_in{k}")[idx]
        return make_index_lambda(e, {f"_in{k}": a for k, a in enumerate(arrs)}, arrs[0].shape, arrs[0].dtype)


_CALLEES = {}


def _callee(which, shape):
    """the two fixed hand-written loopy kernels (C target, as the code generator requires)"""
    import loopy as lp
    key = (which, shape)
    if key not in _CALLEES:
        n, m = shape
        if which == "rowsum":
            _CALLEES[key] = lp.make_kernel(
                f"{{[i,j]: 0<=i<{n} and 0<=j<{m}}}", "out[i] = sum(j, 2*a[i,j]) + b[i]",
                [lp.GlobalArg("a", shape=(n, m), dtype=np.float64), lp.GlobalArg("b", shape=(n,), dtype=np.float64),
                 lp.GlobalArg("out", shape=(n,), dtype=np.float64, is_input=False)],
                name="rowsum", lang_version=(2018, 2), target=lp.ExecutableCTarget())
        elif which == "scaled":
            _CALLEES[key] = lp.make_kernel(
                f"{{[i,j]: 0<=i<{n} and 0<=j<{m}}}", "out[i,j] = alpha*a[i,j] + 1",
                [lp.GlobalArg("a", shape=(n, m), dtype=np.float64), lp.ValueArg("alpha", dtype=np.float64),
                 lp.GlobalArg("out", shape=(n, m), dtype=np.float64, is_input=False)],
                name="scaled", lang_version=(2018, 2), target=lp.ExecutableCTarget())
        else:
            _CALLEES[key] = lp.make_kernel(
                f"{{[i,j]: 0<=i<{n} and 0<=j<{m}}}", ["sq[i,j] = a[i,j]*a[i,j] + 1", "ng[j,i] = -a[i,j]"],
                [lp.GlobalArg("a", shape=(n, m), dtype=np.float64),
                 lp.GlobalArg("sq", shape=(n, m), dtype=np.float64, is_input=False),
                 lp.GlobalArg("ng", shape=(m, n), dtype=np.float64, is_input=False)],
                name="sqneg", lang_version=(2018, 2), target=lp.ExecutableCTarget())
    return _CALLEES[key]


class _CalleeSemantics:
    """what the two hand-written kernels compute, in NumPy terms (for the NumPy and symnp readings)"""

    def callee_rowsum(self, a, b):
        return self.sum(2 * a, axis=1) + b

    def callee_sq_and_neg(self, a):
        return a * a + 1, (-a).T

    def callee_scaled(self, a, alpha):
        return alpha * a + 1

    def handmade_sub(self, x, y):
        return x - y

    def handmade_weighted(self, arrs):
        r = arrs[0]
        for k in range(1, len(arrs)):
            r = r + (k + 1) * arrs[k]
        return r


class NpLib(_CalleeSemantics):
    is_pytato = False

    def __getattr__(self, n):
        return getattr(np, n)

    def astype(self, a, dtype):
        return np.asarray(a).astype(dtype)

    def arange(self, *a, dtype=None):
        return np.arange(*a, dtype=dtype or np.int64)

    def csr_matmul(self, shape, elem_values, elem_col_indices, row_starts, x):
        # the documented meaning of a CSR product: only stored entries take part (so 0 * inf never arises from
        # entries that are not stored)
        x = np.asarray(x)
        y = np.zeros((shape[0],) + x.shape[1:], dtype=np.result_type(elem_values.dtype, x.dtype))
        with np.errstate(all="ignore"):
            for r in range(shape[0]):
                for k in range(int(row_starts[r]), int(row_starts[r + 1])):
                    y[r] = y[r] + elem_values[k] * x[int(elem_col_indices[k])]
        return y


def build_pytato(prog: Prog, data=None):
    """-> (dict name->Array, dict input name->pytato input).  *data*: concrete
    arrays for data wrappers (default: deterministic)."""
    import pytato as pt
    L = PtLib()
    ins = {}
    for name, shape, dtype, kind in prog.inputs:
        if kind == "dw":
            arr = (data or {}).get(name)
            if arr is None:
                arr = default_data(name, shape, dtype, prog)
            ins[name] = pt.make_data_wrapper(arr, name=name)
        else:
            ins[name] = pt.make_placeholder(name, shape, dtype)
    outs = prog.fn(L, **ins)
    return outs, ins


def dwname_for(ins):
    """name used for reads of wrapped data = the program's input name"""
    import pytato as pt
    by_id = {id(v.data): k for k, v in ins.items() if isinstance(v, pt.array.DataWrapper)}

    def dwname(dw):
        return by_id[id(dw.data)]
    return dwname


def build_ref(prog: Prog, xp):
    ins = {}
    for name, shape, dtype, kind in prog.inputs:
        a = xp.input(name, shape, dtype)
        ins[name] = a
    return prog.fn(xp, **ins), ins


def build_numpy(prog: Prog, data):
    with np.errstate(all="ignore"):
        return prog.fn(NpLib(), **{n: data[n] for n, *_ in prog.inputs})


def default_data(name, shape, dtype, prog=None, seed=0):
    """pairwise-distinct cells, deterministic"""
    rng = np.random.default_rng(abs(hash((name, seed))) % (2 ** 32) if False else (sum(map(ord, name)) + 7919 * seed))
    dt = np.dtype(dtype)
    n = int(np.prod(shape)) if len(shape) else 1
    if prog is not None and name in getattr(prog, "fixed_data", {}):
        a = prog.fixed_data[name]
        if isinstance(a, np.ndarray) and a.dtype == dt and a.shape == tuple(shape):
            return a               # keep views as they are (strides / shared memory are the point)
        return np.asarray(a, dtype=dt).reshape(shape)
    if prog is not None and name in prog.index_ranges:
        lo, hi = prog.index_ranges[name]
        return rng.integers(lo, hi, size=shape).astype(dt)
    if dt.kind == "b":
        return rng.integers(0, 2, size=shape).astype(bool)
    if dt.kind in "iu":
        return (rng.permutation(n).reshape(shape) - n // 3).astype(dt)
    base = (rng.permutation(n).astype(np.float64).reshape(shape) * 0.37 + 0.25) * np.where(
        rng.integers(0, 2, size=shape) > 0, 1.0, -1.0)
    if dt.kind == "c":
        return (base + 1j * rng.permutation(n).reshape(shape) * 0.11).astype(dt)
    return base.astype(dt)


def kinds_of(prog: Prog):
    from pv.sem.alg import dtype_kind
    return {n: dtype_kind(dt) for n, _, dt, _ in prog.inputs}


# ---------------------------------------------------------------------------
# the committed corpus

def _P(name, inputs, fn, tags=(), **kw):
    return Prog(name, inputs, fn, tuple(tags), **kw)


def ph(name, shape, dtype=F64):
    return (name, tuple(shape), dtype, "ph")


def dw(name, shape, dtype=F64):
    return (name, tuple(shape), dtype, "dw")


CORPUS = [
    _P("arith_bcast", [ph("x", (3, 4)), ph("y", (4,), I32)],
       lambda L, x, y: {"out": (x + y) * 2 - y / 3.0, "out2": 3 - x}),
    _P("scalar_first", [ph("x", (2, 3))],
       lambda L, x: {"a": 2.0 / x, "b": 5 - x, "c": 2 ** x, "d": 7 % (x * x + 1), "e": 3 // (x * x + 1)}),
    _P("intdiv_mod", [ph("m", (5,), I64), ph("n", (5,), I64)],
       lambda L, m, n: {"q": m // (n * n + 1), "r": m % (n * n + 1), "p": m ** 2}),
    _P("logical_nonbool", [ph("m", (4,), I64), ph("n", (4,), I64), ph("x", (4,)), ph("y", (4,))],
       # truthiness of non-boolean operands (2 and 1 is True although 2 & 1 == 0)
       lambda L, m, n, x, y: {"and_i": L.logical_and(m, n), "or_i": L.logical_or(m, n), "and_f": L.logical_and(x, y),
                              "or_fi": L.logical_or(x, m), "cnt": L.sum(L.where(L.logical_and(m, n), 1, 0)),
                              "w": L.where(L.logical_or(m, n), x, y)},
       # (sum of a bool array keeps dtype bool in pytato -- listed C03 finding -- hence the astype; logical_not is
       #  refused by the Python target, so it lives in compare_logic)
       tags=("reduction",),
       fixed_data={"m": [2, 0, 1, -4], "n": [1, 0, 0, 3], "x": [0.5, 0.0, -2.0, 0.0], "y": [0.0, 0.0, 4.0, 1.5]}),
    _P("compare_logic", [ph("x", (3, 3)), ph("y", (3,))],
       lambda L, x, y: {"lt": L.less(x, y), "ge": L.greater_equal(x, 0.5), "land": L.logical_and(L.less(x, y), L.greater(x, 0)),
                        "lor": L.logical_or(L.equal(x, y), L.not_equal(y, 1.0)), "lnot": L.logical_not(L.less_equal(x, y))}),
    _P("where_minmax", [ph("x", (4, 2)), ph("y", (4, 1)), ph("c", (2,), B)],
       lambda L, x, y, c: {"w": L.where(c, x, y), "mx": L.maximum(x, y), "mn": L.minimum(x, 0.5),
                           "w2": L.where(L.less(x, y), 1.0, x), "mn2": L.minimum(y, x), "mx2": L.maximum(0.5, x),
                           "mn3": L.minimum(x, y)}),
    _P("math_funcs", [ph("x", (3, 2))],
       lambda L, x: {"a": L.sin(x) + L.cos(x), "b": L.exp(L.tanh(x)), "c": L.sqrt(L.abs(x)), "d": L.arctan(x),
                     "e": L.isnan(x), "f": L.log(x * x + 1)}),
    _P("complex_ops", [ph("z", (4,), C128), ph("x", (4,))],
       lambda L, z, x: {"re": L.real(z) * x, "im": L.imag(z), "cj": L.conj(z) * z, "ab": L.abs(z), "mix": z * x + 1j},
       tags=("complex",)),
    _P("astype_chain", [ph("m", (3, 3), I32), ph("x", (3, 3), F32)],
       lambda L, m, x: {"a": L.astype(m, F64) * 0.5, "b": L.astype(x, F64) + m, "c": L.astype(m, I64) * 3}),
    _P("reductions", [ph("x", (2, 3, 4))],
       lambda L, x: {"s": L.sum(x), "s1": L.sum(x, axis=1), "s02": L.sum(x, axis=(0, 2)), "mx": L.max(x, axis=2),
                     "mn": L.min(x, axis=(0, 1)), "pr": L.prod(x, axis=0)}, tags=("reduction",)),
    _P("reductions_bool", [ph("x", (3, 4)), ph("y", (3, 4))],
       lambda L, x, y: {"all": L.all(L.less(x, y), axis=1), "any": L.any(L.greater(x, y))}, tags=("reduction", "allany")),
    _P("reduce_of_expr", [ph("x", (3, 4)), ph("y", (4,))],
       lambda L, x, y: {"out": L.sum(x * y + 1, axis=1) / L.sum(y), "nest": L.sum(L.sum(x, axis=0) * y)},
       tags=("reduction",)),
    _P("matmul_chain", [ph("a", (3, 4)), ph("b", (4, 2)), ph("v", (4,))],
       lambda L, a, b, v: {"ab": a @ b, "av": a @ v, "va": v @ b, "vv": v @ v, "abT": (a @ b).T},
       tags=("reduction", "einsum")),
    _P("einsum_forms", [ph("a", (3, 3)), ph("b", (3, 4)), ph("c", (3, 1))],
       lambda L, a, b, c: {"tr": L.einsum("ii->i", a), "mm": L.einsum("ij,jk->ik", a, b), "bc": L.einsum("ij,ij->ij", a, c),
                           "sum": L.einsum("ij->", b), "outer": L.einsum("i,j->ij", a[0], b[1]),
                           "three": L.einsum("ij,jk,ik->i", a, b, b),
                           # summation indices that first appear in different operands
                           "two_red": L.einsum("ij,kl->ik", a, b), "outer_sum": L.einsum("i,j->", a[0], b[1]),
                           "chain4": L.einsum("ij,jk,kl,lm->im", a, a, b, b.T),
                           # length-1 operand first / second on a *contracted* index (legal broadcasting)
                           "bc_contract": L.einsum("ij,jk->ik", c, b), "bc_contract2": L.einsum("jk,ij->ik", b, c)},
       tags=("reduction", "einsum")),
    _P("dot_vdot", [ph("a", (2, 3)), ph("b", (3, 2)), ph("u", (3,)), ph("w", (3,))],
       lambda L, a, b, u, w: {"d1": L.dot(u, w), "d2": L.dot(a, b), "d3": L.dot(a, u), "vd": L.vdot(u, w)},
       tags=("reduction", "einsum")),
    _P("stack_concat", [ph("x", (2, 3)), ph("y", (2, 3)), ph("z", (1, 3))],
       lambda L, x, y, z: {"st0": L.stack([x, y]), "st2": L.stack([x, y, x + y], axis=2), "cc0": L.concatenate([x, z, y]),
                           "cc1": L.concatenate([x, y], axis=1)}),
    _P("roll_transpose", [ph("x", (3, 4, 2))],
       lambda L, x: {"r1": L.roll(x, 5, 1), "rneg": L.roll(x, -1, 0), "t": L.transpose(x, (2, 0, 1)), "T": x.T,
                     "rt": L.roll(L.transpose(x, (1, 0, 2)), 2, 0)}),
    _P("reshape_cf", [ph("x", (2, 3, 4))],
       lambda L, x: {"c": L.reshape(x, (6, 4)), "f": L.reshape(x, (6, 4), order="F"), "c2": L.reshape(x, (4, 6)),
                     "f2": L.reshape(x, (2, 12), order="F"), "unit": L.reshape(x, (2, 1, 3, 4, 1), order="F"),
                     "flat": L.reshape(x, (-1,)), "both": L.reshape(x, (4, 6)) + L.reshape(x, (4, 6), order="F"),
                     "lc": L.reshape(x, (4, 6), order="c"), "lf": L.reshape(x, (3, 8), order="f")}),
    _P("dims", [ph("x", (3, 1, 2)), ph("y", (2,))],
       lambda L, x, y: {"sq": L.squeeze(x), "ex": L.expand_dims(y, 0), "ex2": L.expand_dims(y, (0, 2)),
                        "bt": L.broadcast_to(y, (3, 2)), "bt2": L.broadcast_to(x, (4, 3, 5, 2)) + 0}),
    _P("basic_index", [ph("x", (5, 4))],
       lambda L, x: {"row": x[1], "neg": x[-1, -2], "sl": x[1:4, ::2], "rev": x[::-1], "rev0": x[3::-1, 1],
                     "revend": x[4:0:-2], "empty": x[3:1], "ell": x[..., 0], "clip": x[-100:100, 2:100],
                     "revpast": x[7:2:-1], "revlen": x[5::-1, 0], "revfar": x[100::-2],
                     "revnone": x[-9::-2], "revnone2": x[-6:1:-1, 0]}),
    _P("adv_index", [ph("x", (4, 3, 2)), ph("i", (2,), I64), ph("j", (2, 1), I64)],
       lambda L, x, i, j: {"a": x[i], "b": x[:, i], "c": x[i, :, i], "d": x[j, i % 3], "e": x[i, 1], "f": x[1:3, i % 3, ::-1],
                           "g": x[i, :, 0], "h": x[1, i % 3], "k": x[2, i % 3, :], "l": (2 * x)[0, i % 3, 1:] + 1},
       tags=("advidx",), index_ranges={"i": (-2, 2), "j": (-4, 4)}),
    _P("adv_index_long", [ph("x", (4, 3, 2)), ph("i5", (5,), I64), ph("k23", (2, 3), I64)],
       # index arrays longer than the axes that follow them (a loop variable of the index array must never drive a slice)
       lambda L, x, i5, k23: {"a": x[i5, 2, :], "b": x[i5, -1], "c": x[:, i5 % 3, 1], "d": x[k23, 0, ::-1], "e": x[i5, :, 0],
                              "f": x[1, i5 % 3], "g": x[k23 % 2 + 1, k23 % 3]},
       tags=("advidx",), index_ranges={"i5": (-4, 4), "k23": (-4, 4)}),
    _P("adv_index_4d", [ph("x", (2, 3, 2, 3)), ph("i", (2,), I64), ph("j", (2,), I64)],
       # non-contiguous groups that start with slices, groups ending in ints, reversed/stepped slices around them
       lambda L, x, i, j: {"a": x[:, i, :, j], "b": x[:, i, :, -1], "c": x[::-1, 2, 1:2, i], "d": x[:, i, j % 2, :],
                           "e": x[1, :, i % 2, j], "f": x[:, :, i % 2, j], "g": x[i % 2, :, :, j]},
       tags=("advidx",), index_ranges={"i": (-3, 3), "j": (-3, 3)}),
    _P("adv_index_nonneg", [ph("x", (4, 3, 2)), ph("r", (2,), I64), ph("c", (2,), I64), ph("d", (2,), I64)],
       # r holds non-negative indices only (declared: C07 may tag it AssumeNonNegative), c and d hold negative ones too
       lambda L, x, r, c, d: {"a": x[r, c], "b": x[r, :, d], "e": x[:, c, r % 2], "f": x[r, c, d], "g": x[r]},
       tags=("advidx",), nonneg=("r",), index_ranges={"r": (0, 4), "c": (-3, 3), "d": (-2, 2)},
       fixed_data={"r": [3, 0], "c": [-1, -3], "d": [-2, -1]}),
    _P("creation", [ph("x", (3, 3))],
       lambda L, x: {"z": L.zeros((3, 3)) + x, "o": L.ones((3,), dtype=I32) * 2, "f": L.full((2, 3), 7.5), "eye": L.eye(3) * x,
                     "eyek": L.eye(3, 4, k=1), "ar": L.arange(3) * 2 + x, "zl": L.zeros_like(x), "ol": L.ones_like(x) + x,
                     # descending and strided ranges
                     "arn": L.arange(5, 0, -1), "arn2": L.arange(10, 0, -2) * 2, "ars": L.arange(1, 8, 3)}),
    _P("like_dtype_override", [ph("x", (3,)), ph("w", (2, 2), F32)],
       # (pytato's zeros_like is annotated to take an np.dtype instance, not a scalar type)
       lambda L, x, w: {"zi": L.zeros_like(x, dtype=np.dtype(I32)) + 1, "of": L.ones_like(x, dtype=np.dtype(F32)) * 3,
                        "zd": L.zeros_like(w, dtype=np.dtype(F64)) + w, "zsame": L.zeros_like(w) + w,
                        "zraw": L.zeros_like(x, dtype=np.dtype(I32))}),
    _P("handmade_index_lambda", [ph("x", (3,)), ph("y", (3,))],
       lambda L, x, y: {"sub": L.handmade_sub(x, y), "shifted": L.handmade_sub(x * 2, y + 1) * y,
                        "w11": L.handmade_weighted([x, y, x + 1, y + 1, x * 2, y * 2, x - 1, y - 1, x * x, y * y, x + y]),
                        "st11": L.sum(L.stack([x, y, x + 1, y + 1, x * 2, y * 2, x - 1, y - 1, x * x, y * y, x + y]), axis=0)},
       tags=("handmade",)),
    _P("creation_dtypes", [ph("w", (2, 2), F32)],
       # constant arrays of non-default dtypes (values 0 / 1 and others), alone and combined
       lambda L, w: {"z32": L.zeros((2, 2), dtype=F32), "o32": L.ones((3,), dtype=F32) * 16777216 + 1, "f32": L.full((2,), 1.0, dtype=F32),
                     "zw": L.zeros((2, 2), dtype=F32) + w, "o16": L.ones((2,), dtype=np.float16), "oi": L.ones((2,), dtype=I64) * 3,
                     "zc": L.zeros((2,), dtype=C128), "f7": L.full((2,), 7.5, dtype=F32), "ow": L.ones((2, 2), dtype=F32) * w}),
    _P("pad", [ph("x", (2, 3)), ph("v", (3,))],
       lambda L, x, v: {"p1": L.pad(v, 1), "p2": L.pad(x, ((1, 0), (0, 2))), "p3": L.pad(v, (2, 1), constant_values=5.0)}),
    _P("sharing", [ph("x", (3, 3)), ph("y", (3, 3))],
       lambda L, x, y: (lambda t: {"o1": t * t + t, "o2": L.sum(t, axis=0) + L.sum(t, axis=1), "o3": t.T @ t})(x + y),
       tags=("reduction", "einsum")),
    _P("dup_subexpr", [ph("x", (4,)), ph("y", (4,))],
       lambda L, x, y: {"o": (x + y) * (x + y), "p": (x + y) - (y + x)}),
    _P("out_is_input", [ph("x", (3,)), ph("y", (3,))],
       lambda L, x, y: {"x_out": x, "same1": x + y, "same2": x + y, "y2": y * 2}),
    _P("data_wrappers", [dw("d", (3, 2)), ph("x", (3, 2)), dw("e", (2,), I64)],
       lambda L, d, x, e: {"o": d * x + e, "s": L.sum(d, axis=0) * e, "drev": d[::-1], "dout": d}, tags=("reduction",)),
    _P("dw_views", [dw("m", (3, 3)), dw("mt", (3, 3)), dw("u4", (4,)), dw("u2", (4,)), ph("x", (3, 3))],
       lambda L, m, mt, u4, u2, x: {"d": m - mt, "s": (m + x) * mt, "v": u4 * 2 - u2},
       tags=("views",),
       fixed_data=(lambda base, u: {"m": base, "mt": base.T, "u4": u[:4], "u2": u[::2]})(
           np.arange(9.0).reshape(3, 3) * 0.5 + 1.0, np.arange(8.0) * 1.5 - 2.0)),
    _P("hash_colliding_siblings", [ph("x", (4,)), ph("y", (4,))],
       # CPython: hash(-1) == hash(-2); structurally different siblings with equal hashes
       lambda L, x, y: {"poly": (x - 1) * (x - 2), "l1": L.roll(x, -1, 0) + y, "l2": L.roll(x, -2, 0) + y,
                        "p1": x ** -1.0 + y * -1, "p2": x ** -2.0 + y * -2}),
    _P("np_scalar_operands", [ph("b8", (4,), np.int8), ph("f4", (4,), F32), ph("c", (4,), B)],
       lambda L, b8, f4, c: {"wide": b8 * np.int64(3), "cmp": L.less_equal(f4, np.float64(0.1)),
                             "wh": L.where(c, f4, np.float64(0.1)), "add": f4 + np.float64(2.5), "i": b8 + np.int8(2)},
       tags=("npscalars",)),
    _P("zero_size", [ph("x", (0, 3)), ph("y", (3,))],
       lambda L, x, y: {"a": x + y, "c": L.concatenate([x, L.reshape(y, (1, 3))]), "r": L.reshape(x, (3, 0)),
                        "t": x.T}),
    _P("zero_size_reduction", [ph("x", (0, 3)), ph("z", (2, 3))],
       lambda L, x, z: (lambda s_: {"o": s_, "p": s_ * 2 + 1, "q": x.T @ x, "r": L.sum(z, axis=1)})(L.sum(x, axis=1)),
       tags=("reduction", "zsr")),
    _P("scalar_arrays", [ph("s", ()), ph("x", (3,))],
       lambda L, s, x: {"a": s * x, "b": s + 1, "c": L.sum(x) * s, "d": L.reshape(s, (1, 1))}, tags=("reduction",)),
    _P("mixed_pipeline", [ph("a", (4, 3)), ph("b", (3, 4)), ph("i", (3,), I64)],
       lambda L, a, b, i: {"out": L.roll((a @ b)[i % 4], 1, 0).T + L.sum(a, axis=0),
                           "o2": L.reshape(L.transpose(a), (2, 6), order="F")[:, ::3] * L.max(b)},
       tags=("reduction", "advidx", "einsum"), index_ranges={"i": (-3, 3)}),
    _P("where_idx", [ph("x", (3, 4)), ph("y", (3, 4))],
       lambda L, x, y: {"o": L.where(L.less(L.roll(x, 1, 1), y), L.concatenate([x[:, :2], y[:, 2:]], axis=1), x[::-1])}),
    _P("bitwise", [ph("m", (4,), I32), ph("n", (4,), I32)],
       lambda L, m, n: {"band": m & n, "bor": m | 3, "bxor": 5 ^ n}),
    _P("bool_arith", [ph("p", (3,), B), ph("x", (3,))],
       lambda L, p, x: {"o": p * x, "w": L.where(p, x, -x), "n": L.logical_not(p)}),
    _P("f32", [ph("x", (2, 2), F32), ph("y", (2,), F32)],
       lambda L, x, y: {"o": x * y + 2, "s": L.sum(x, axis=0), "m": x @ y}, tags=("reduction", "einsum")),
    _P("stack_of_reductions", [ph("x", (3, 4))],
       lambda L, x: {"o": L.stack([L.sum(x, axis=1), L.max(x, axis=1), L.min(x, axis=1)], axis=1)}, tags=("reduction",)),
    _P("csr_matmul", [ph("ev", (5,)), ph("ci", (5,), I32), ph("rs", (4,), I32), ph("x", (4, 2)), ph("v", (4,))],
       lambda L, ev, ci, rs, x, v: {"mx": L.csr_matmul((3, 4), ev, ci, rs, x), "mv": L.csr_matmul((3, 4), ev, ci, rs, v) * 2.0},
       tags=("reduction", "csr"), fixed_data={"ci": [0, 3, 1, 2, 3], "rs": [0, 2, 2, 5]}),
    _P("csr_computed", [ph("ev", (5,)), ph("ev2", (5,)), dw("ci", (5,), I32), dw("ci2", (5,), I32), dw("rs", (4,), I32),
                        ph("x", (4, 2)), ph("v", (4,))],
       # matrices whose parts are computed / shared / wrapped twice, so that transformations have to rebuild them:
       # t has two materialized predecessors and two successors (MPMS stores it), (ev+1) occurs twice (deduplicate),
       # ci and ci2 wrap one buffer (deduplicate_data_wrappers)
       lambda L, ev, ev2, ci, ci2, rs, x, v: (lambda t: {
           "m1": L.csr_matmul((3, 4), t * 2 + t * t, ci, rs, x),
           "m2": L.csr_matmul((3, 4), (ev + 1) * (ev + 1), ci2, rs, v) + L.csr_matmul((3, 4), ev2, ci, rs, v)})(ev + ev2),
       tags=("reduction", "csr"),
       fixed_data=(lambda c, r: {"ci": c, "ci2": c[:], "rs": r})(np.array([0, 3, 1, 2, 3], dtype=I32), np.array([0, 2, 2, 5], dtype=I32))),
    _P("loopy_calls", [ph("x", (3, 4)), ph("y", (3,))],
       lambda L, x, y: (lambda sqng: {"rs": L.callee_rowsum(x * 2, y) + 1, "sq": sqng[0] - x, "ng": sqng[1] * 2,
                                      "rs2": L.callee_rowsum(sqng[0], y)})(L.callee_sq_and_neg(x + 1)),
       tags=("reduction", "loopycall")),
    _P("loopy_call_scalar_binding", [ph("x", (3, 4))],
       lambda L, x: {"sc": L.callee_scaled(x, 2.5) * 2, "sc2": L.callee_scaled(x + 1, -1.0) - x},
       tags=("loopycall",)),
    _P("mixed_int_widths", [ph("u", (4,), np.uint32), ph("i", (4,), I32), ph("b", (4,), np.int8), ph("w", (4,), np.uint8)],
       # results that are negative or do not fit into 32 bits: NumPy promotes uint32 (op) int32 to int64
       lambda L, u, i, b, w: {"add": u + i, "sub": u - i, "mul": u * i, "sub8": u - b, "mix8": w * b + i, "neg": -i + u},
       tags=("intarith",),
       fixed_data={"u": np.array([0, 1, 4000000000, 4294967295], dtype=np.uint32),
                   "i": np.array([-1, -2000000000, 2000000000, 7], dtype=I32),
                   "b": np.array([-128, 127, -1, 5], dtype=np.int8), "w": np.array([255, 0, 200, 3], dtype=np.uint8)}),
    _P("narrowing_casts", [ph("u", (4,), np.uint32), ph("i", (4,), I32), ph("b", (4,), np.int8)],
       # narrowing casts of out-of-range data, consumed by something that casts again (a cast of a cast is not one cast)
       lambda L, u, i, b: {"nar8": L.astype(L.astype(i, np.int8), I64), "nar8p": L.astype(i, np.int8) + u,
                           "naru8": L.astype(i, np.uint8) * 2.5, "nar16": L.astype(L.astype(u, np.int16), I32) - b},
       tags=("intarith",),
       fixed_data={"u": np.array([0, 1, 4000000000, 4294967295], dtype=np.uint32),
                   "i": np.array([-1, -2000000000, 2000000000, 7], dtype=I32), "b": np.array([-128, 127, -1, 5], dtype=np.int8)}),
    _P("mixed_dtype_join", [ph("i", (3,), I32), ph("x", (2,)), ph("f", (3,), F32), ph("m", (2, 3), I64), ph("y", (2, 3))],
       # pieces of different dtypes, the narrower one first: the joined array has the promoted dtype
       lambda L, i, x, f, m, y: {"c": L.concatenate([i, x]), "h": L.concatenate([i, x]) * 0.5, "cf": L.concatenate([f, x, i]),
                                 "s": L.stack([i, f]), "s2": L.stack([m, y], axis=1) + 1, "cm": L.concatenate([m, y], axis=1)}),
    _P("repeated_operands", [ph("x", (3,)), ph("y", (3,))],
       # one array in several operand slots of a single node (the same instance, or an equal one built again)
       lambda L, x, y: {"s": L.stack([x, x]), "c": L.concatenate([x, y, x]), "s2": L.stack([x + 1, y, x + 1], axis=1),
                        "c2": L.concatenate([x * y, x * y]), "e": L.einsum("i,i->", x, x), "w": L.where(L.less(x, y), x, x),
                        "both": L.stack([x, x]) * 2 + L.stack([y, y])}, tags=("reduction", "einsum")),
    _P("neg_abs_pow", [ph("x", (3,)), ph("m", (3,), I64)],
       lambda L, x, m: {"a": -x, "b": abs(x) ** 0.5, "c": (-m) ** 2, "e": x ** 2 - m}),
]


def corpus(tier="quick", seed=0, want=None, exclude=()):
    """exclude: program tags to leave out ('zsr' marks zero-size stored reductions: once a listed C01 finding,
    repaired by /repo 0f544b0, so these programs are now part of every check's list)"""
    progs = [p for p in CORPUS if not (set(p.tags) & set(exclude))]
    if want:
        progs = [p for p in progs if p.name in want]
    ngen2 = 120 if tier == "thorough" else 24
    gen = generated2(seed, ngen2) + (generated(seed, 40, exclude=exclude) if tier == "thorough" else [])
    gen = [p for p in gen if not (set(p.tags) & set(exclude))]
    if want:
        gen = [p for p in gen if p.name in want]
    return progs + gen


# ---------------------------------------------------------------------------
# seeded generator: straight-line programs over a pool of arrays

_UN = ["neg", "sin", "abs", "sqrt_abs", "exp_tanh", "T", "rev", "roll", "sum0", "sumlast", "max0", "reshapeF", "reshapeC",
       "expand", "slice"]
_BIN = ["add", "sub", "mul", "div", "where_lt", "maximum", "stack", "concat", "matmul"]


def _gen_fn(ops, keep=None):
    """keep: per-op decision (computed once with real NumPy) so that every reading
    of the program executes the same operations"""
    def fn(L, **ins):
        pool = [ins[k] for k in sorted(ins)]
        decided = []
        for k_op, op in enumerate(ops):
            kind, a, b, extra = op
            if keep is not None and not keep[k_op]:
                continue
            x = pool[a % len(pool)]
            try:
                if kind == "neg":
                    r = -x
                elif kind == "sin":
                    r = L.sin(x)
                elif kind == "abs":
                    r = L.abs(x)
                elif kind == "sqrt_abs":
                    r = L.sqrt(L.abs(x) + 1)
                elif kind == "exp_tanh":
                    r = L.exp(L.tanh(x))
                elif kind == "T":
                    r = x.T
                elif kind == "rev":
                    r = x[::-1] if len(x.shape) else x
                elif kind == "roll":
                    r = L.roll(x, extra, 0) if len(x.shape) else x
                elif kind == "sum0":
                    r = L.sum(x, axis=0) if len(x.shape) and x.shape[0] > 0 else x
                elif kind == "sumlast":
                    r = L.sum(x, axis=len(x.shape) - 1) if len(x.shape) and x.shape[-1] > 0 else x
                elif kind == "max0":
                    r = L.max(x, axis=0) if len(x.shape) and x.shape[0] > 0 else x
                elif kind in ("reshapeF", "reshapeC"):
                    if len(x.shape) >= 2:
                        r = L.reshape(x, (x.shape[0] * x.shape[1],) + tuple(x.shape[2:]), order=kind[-1])
                    elif len(x.shape) == 1 and x.shape[0] % 2 == 0 and x.shape[0] > 0:
                        r = L.reshape(x, (2, x.shape[0] // 2), order=kind[-1])
                    else:
                        r = x
                elif kind == "expand":
                    r = L.expand_dims(x, extra % (len(x.shape) + 1))
                elif kind == "slice":
                    r = x[extra % 2::2] if len(x.shape) else x
                else:
                    y = pool[b % len(pool)]
                    if kind == "add":
                        r = x + y
                    elif kind == "sub":
                        r = x - y
                    elif kind == "mul":
                        r = x * y
                    elif kind == "div":
                        r = x / (y * y + 1)
                    elif kind == "where_lt":
                        r = L.where(L.less(x, y), x, y)
                    elif kind == "maximum":
                        r = L.maximum(x, y)
                    elif kind == "stack":
                        r = L.stack([x, y], axis=extra % (len(x.shape) + 1))
                    elif kind == "concat":
                        r = L.concatenate([x, y], axis=0)
                    elif kind == "matmul":
                        r = x @ y
                    else:
                        raise AssertionError(kind)
            except (ValueError, TypeError, IndexError, NotImplementedError):
                if keep is not None:
                    raise         # NumPy accepted this op: the reading at hand refuses the program
                decided.append(False)
                continue
            if keep is None and (len(r.shape) > 4 or any(int(s) > 8 for s in r.shape)):
                decided.append(False)
                continue
            decided.append(True)
            pool.append(r)
        fn.decided = decided
        outs = pool[-3:] if len(pool) >= 3 else pool
        return {f"o{k}": v for k, v in enumerate(outs)}
    return fn


def generated(seed, n, exclude=()):
    out = []
    rnd = random.Random(1000 + seed)
    shapes = [(3,), (2, 3), (3, 2), (3, 3), (2, 2, 3), (4,), (1, 3), ()]
    for k in range(n):
        nin = rnd.randint(1, 3)
        ins = [ph(f"x{j}", rnd.choice(shapes), F64) for j in range(nin)]
        ops = []
        for _ in range(rnd.randint(3, 8)):
            if rnd.random() < 0.55:
                ops.append((rnd.choice(_UN), rnd.randrange(100), 0, rnd.randint(-5, 5)))
            else:
                ops.append((rnd.choice(_BIN), rnd.randrange(100), rnd.randrange(100), rnd.randint(0, 3)))
        probe = _gen_fn(ops)
        with np.errstate(all="ignore"):
            probe(NpLib(), **{nm: np.ones(shp, dt) for nm, shp, dt, _ in ins})
        keep = list(probe.decided)
        if not any(keep):
            continue
        out.append(Prog(f"gen{seed}_{k}", ins, _gen_fn(ops, keep), ("generated", "reduction", "einsum")))
    return out


# ---------------------------------------------------------------------------
# seeded generator, second version: shape-aware.  The program is grown step by step on real NumPy arrays, so every
# parameter (permutation, slice, pad widths, reshape target, einsum spec, ...) is drawn to fit the operand at hand and
# every recorded step is one NumPy accepts; replaying the recorded steps with another library object gives the same
# program in that reading.

def _slc(ax, sl, nd):
    return (slice(None),) * ax + (sl,) + (slice(None),) * (nd - ax - 1)


def _factorizations(n, rnd):
    if n == 0:
        return [(0,), (0, 2), (3, 0)]
    out = [(n,)]
    for a in range(1, n + 1):
        if n % a == 0:
            out.append((a, n // a))
            for b in range(1, n // a + 1):
                if (n // a) % b == 0:
                    out.append((a, b, n // a // b))
    return out


_FLOAT_ONLY = {"sin", "cos", "sqrt_abs", "exp_tanh", "arctan2", "abs", "zeros_like_add", "ones_like_f32"}      # (pytato's math functions document a ValueError for integers)


def _draw_step(rnd, shapes, dtypes=None):
    """-> (kind, operand indices, params) fitting the pool's shapes, or None"""
    st = _draw_step0(rnd, shapes)
    if st is not None and dtypes is not None:
        kinds = [np.dtype(dtypes[k]).kind for k in st[1]]
        if st[0] in _FLOAT_ONLY and any(k != "f" for k in kinds):
            return None
        # (maximum/minimum of an integer array and a float operand go through isnan(int array): refused with ValueError)
        if st[0] in ("clip_lo", "clip_hi") and kinds[0] != "f":
            return None
        if st[0] in ("maximum", "minimum") and len(set(kinds)) > 1:
            return None
        if st[0] == "pad" and kinds[0] != "f":
            # (a fractional fill value in an integer array is truncated by NumPy and by C alike, but the truncation is a
            #  width-level cast the term algebra does not model: integer fill values for integer arrays)
            st = (st[0], st[1], (st[2][0], int(st[2][1])))
    return st


def _draw_step0(rnd, shapes):
    i = rnd.randrange(len(shapes))
    shp = shapes[i]
    nd = len(shp)
    kind = rnd.choice(_G2)
    if kind in ("neg", "sin", "cos", "abs", "sqrt_abs", "exp_tanh", "square", "scal_mul", "scal_rsub", "clip_lo", "clip_hi",
                "where_pos", "zeros_like_add", "ones_like_f32", "astype_f32", "recip"):
        return kind, (i,), (rnd.choice([2.5, -1.0, 0.5, 3]),)
    if kind == "transpose":
        if nd < 2:
            return None
        perm = list(range(nd))
        rnd.shuffle(perm)
        return kind, (i,), (tuple(perm),)
    if kind == "slice":
        if nd == 0:
            return None
        ax = rnd.randrange(nd)
        n = shp[ax]
        step = rnd.choice([1, 1, 2, -1, -1, -2, 3])
        start = rnd.choice([None, 0, 1, -1, n, n + 2, -n - 1, n - 1])
        stop = rnd.choice([None, None, n, n - 1, 0, -1, -n, n + 3, 1])
        return kind, (i,), (ax, start, stop, step)
    if kind == "intidx":
        if nd == 0:
            return None
        ax = rnd.randrange(nd)
        if shp[ax] == 0:
            return None
        return kind, (i,), (ax, rnd.randrange(-shp[ax], shp[ax]))
    if kind == "roll":
        if nd == 0:
            return None
        return kind, (i,), (rnd.randint(-7, 7), rnd.randrange(nd))     # (non-negative axes only are documented)
    if kind in ("sum", "prod", "max", "min"):
        if nd == 0:
            return None
        axes = tuple(sorted(rnd.sample(range(nd), rnd.randint(1, nd))))
        if kind in ("max", "min") and any(shp[a] == 0 for a in axes):
            return None
        return kind, (i,), (axes if len(axes) > 1 or rnd.random() < 0.5 else axes[0],)
    if kind == "reshape":
        size = int(np.prod(shp))
        if size > 24:
            return None
        return kind, (i,), (rnd.choice(_factorizations(size, rnd)), rnd.choice("CF"))
    if kind == "expand":
        return kind, (i,), (rnd.randrange(-nd - 1, nd + 1),)
    if kind == "squeeze":
        ones = [a for a in range(nd) if shp[a] == 1]
        if not ones:
            return None
        return kind, (i,), ((rnd.choice(ones),),)
    if kind == "broadcast_to":
        if nd > 2:
            return None
        new = tuple(rnd.choice([2, 3]) if s == 1 and rnd.random() < 0.7 else s for s in shp)
        return kind, (i,), ((rnd.choice([2, 1, 3]),) * rnd.randint(0, 1) + new,)
    if kind == "pad":
        if nd == 0 or nd > 3:
            return None
        return kind, (i,), (tuple((rnd.randint(0, 2), rnd.randint(0, 2)) for _ in range(nd)), rnd.choice([0, 1, 1.5]))
    if kind == "arange_index":
        if nd == 0 or shp[0] == 0:
            return None
        return kind, (i,), (rnd.randint(1, 4), rnd.randint(1, 3), rnd.randint(0, 2))
    if kind == "einsum1":
        specs = {1: ["i->", "i->i"], 2: ["ij->ji", "ij->i", "ij->j", "ij->"] + (["ii->i", "ii->"] if nd == 2 and shp[0] == shp[1] else []),
                 3: ["ijk->kij", "ijk->ik", "ijk->jki", "ijk->j"]}.get(nd)
        if not specs:
            return None
        return kind, (i,), (rnd.choice(specs),)
    # binary
    j = rnd.randrange(len(shapes))
    shq = shapes[j]
    if kind in ("add", "sub", "mul", "div", "where_lt", "maximum", "minimum", "where_band"):
        return kind, (i, j), ()
    if kind == "arctan2":      # (pytato's function application does not broadcast: documented NotImplementedError)
        return kind, (i, rnd.choice([k for k, t in enumerate(shapes) if t == shp])), ()
    if kind == "stack":
        if shp != shq:
            # look for a partner of the same shape
            same = [k for k, t in enumerate(shapes) if t == shp]
            j = rnd.choice(same)
        return kind, (i, j, rnd.randrange(len(shapes)) if rnd.random() < 0.3 else j), (rnd.randrange(nd + 1),)
    if kind == "concat":
        if nd == 0:
            return None
        ax = rnd.randrange(nd)
        ok = [k for k, t in enumerate(shapes) if len(t) == nd and all(t[a] == shp[a] for a in range(nd) if a != ax)]
        return kind, (i, rnd.choice(ok), rnd.choice(ok)), (ax,)        # (pytato documents non-negative axes only)
    if kind == "matmul":
        ok = [k for k, t in enumerate(shapes) if nd >= 1 and len(t) >= 1 and t[0 if len(t) == 1 else -2] == shp[-1]]
        if not ok:
            return None
        return kind, (i, rnd.choice(ok)), ()
    if kind == "einsum2":
        cands = []
        for k, t in enumerate(shapes):
            if nd == 2 and len(t) == 2:
                if t[0] == shp[1]:
                    cands += [(k, "ij,jk->ik"), (k, "ij,jk->ki")]
                if t == shp:
                    cands += [(k, "ij,ij->i"), (k, "ij,ij->"), (k, "ij,ij->ji")]
                if t[1] == shp[1] and (t[0] == 1 or shp[0] == 1 or t[0] == shp[0]):
                    cands += [(k, "ij,ij->j")]
                if shp[1] == 1 or t[0] == 1:
                    cands += [(k, "ij,jk->ik")]      # broadcast on the contracted index
            if nd == 1 and len(t) == 1:
                cands += [(k, "i,j->ij")] + ([(k, "i,i->")] if t == shp or 1 in (t[0], shp[0]) else [])
            if nd == 2 and len(t) == 1 and (t[0] == shp[1] or t[0] == 1):
                cands += [(k, "ij,j->i"), (k, "ij,j->ij")]
            if nd == 3 and len(t) == 2 and t[0] == shp[2]:
                cands += [(k, "ijk,kl->ijl"), (k, "ijk,kl->lji")]
        if not cands:
            return None
        k, spec = rnd.choice(cands)
        return kind, (i, k), (spec,)
    raise AssertionError(kind)


_G2 = ["neg", "sin", "cos", "abs", "sqrt_abs", "exp_tanh", "square", "scal_mul", "scal_rsub", "clip_lo", "clip_hi", "where_pos",
       "zeros_like_add", "ones_like_f32", "astype_f32", "recip",
       "transpose", "transpose", "slice", "slice", "slice", "intidx", "roll", "roll", "sum", "sum", "prod", "max", "min", "reshape",
       "reshape", "expand", "squeeze", "broadcast_to", "pad", "pad", "arange_index", "einsum1", "einsum1",
       "add", "sub", "mul", "div", "where_lt", "maximum", "minimum", "where_band", "arctan2", "stack", "concat", "concat",
       "matmul", "einsum2", "einsum2", "einsum2"]


def _apply_step(L, kind, xs, prm):
    x = xs[0]
    nd = len(x.shape)
    if kind == "neg":
        return -x
    if kind == "sin":
        return L.sin(x)
    if kind == "cos":
        return L.cos(x)
    if kind == "abs":
        return L.abs(x)
    if kind == "sqrt_abs":
        return L.sqrt(L.abs(x) + 1)
    if kind == "exp_tanh":
        return L.exp(L.tanh(x))
    if kind == "square":
        return x ** 2
    if kind == "scal_mul":
        return x * prm[0]
    if kind == "scal_rsub":
        return prm[0] - x
    if kind == "clip_lo":
        return L.maximum(x, prm[0])
    if kind == "clip_hi":
        return L.minimum(x, prm[0])
    if kind == "where_pos":
        return L.where(L.greater(x, 0), x, prm[0])
    if kind == "zeros_like_add":
        return L.zeros_like(x) + x * prm[0]
    if kind == "ones_like_f32":
        return L.ones_like(x, dtype=np.dtype(F32)) * x
    if kind == "astype_f32":
        return L.astype(x, F32) * 2
    if kind == "recip":
        return prm[0] / (x * x + 1)
    if kind == "transpose":
        return L.transpose(x, prm[0])
    if kind == "slice":
        ax, a, b, c = prm
        return x[_slc(ax, slice(a, b, c), nd)]
    if kind == "intidx":
        ax, k = prm
        return x[_slc(ax, k, nd)]
    if kind == "roll":
        return L.roll(x, prm[0], prm[1])
    if kind in ("sum", "prod", "max", "min"):
        return getattr(L, kind)(x, axis=prm[0])
    if kind == "reshape":
        return L.reshape(x, prm[0], order=prm[1])
    if kind == "expand":
        return L.expand_dims(x, prm[0])
    if kind == "squeeze":
        return L.squeeze(x, axis=prm[0])
    if kind == "broadcast_to":
        return L.broadcast_to(x, prm[0])
    if kind == "pad":
        return L.pad(x, prm[0], constant_values=prm[1])
    if kind == "arange_index":
        k, mul, off = prm
        idx = (L.arange(k) * mul + off) % x.shape[0]
        return x[idx]
    if kind == "einsum1":
        return L.einsum(prm[0], x)
    y = xs[1]
    if kind == "add":
        return x + y
    if kind == "sub":
        return x - y
    if kind == "mul":
        return x * y
    if kind == "div":
        return x / (y * y + 1)
    if kind == "where_lt":
        return L.where(L.less(x, y), x, y)
    if kind == "maximum":
        return L.maximum(x, y)
    if kind == "minimum":
        return L.minimum(x, y)
    if kind == "where_band":
        return L.where(L.logical_and(L.greater(x, y), L.less(x, 2 * y)), x - y, y)
    if kind == "arctan2":
        return L.arctan2(x, y)
    if kind == "stack":
        return L.stack(list(xs), axis=prm[0])
    if kind == "concat":
        return L.concatenate(list(xs), axis=prm[0])
    if kind == "matmul":
        return x @ y
    if kind == "einsum2":
        return L.einsum(prm[0], x, y)
    raise AssertionError(kind)


def _gen2_fn(steps, nouts):
    def fn(L, **ins):
        pool = [ins[k] for k in sorted(ins)]
        for kind, opnds, prm in steps:
            pool.append(_apply_step(L, kind, [pool[k] for k in opnds], prm))
        made = pool[len(ins):]
        outs = made[-nouts:]
        return {f"o{k}": v for k, v in enumerate(outs)}
    return fn


def generated2(seed, n):
    """n shape-aware random programs (deterministic in seed)"""
    out = []
    rnd = random.Random(7000 + seed)
    shapes0 = [(3,), (2, 3), (3, 2), (3, 3), (2, 2, 3), (4,), (1, 3), (), (3, 1), (2, 3, 4), (0, 3), (1,)]
    k = 0
    attempts = 0
    while len(out) < n and attempts < 50 * n:
        attempts += 1
        nin = rnd.randint(1, 3)
        # (input dtypes: mostly float64; float32 and int64 bring casts, promotion and integer arithmetic in.  Small
        #  integer and bool inputs are left out: pytato's dtype deviations for them are listed C03 findings)
        ins = [ph(f"x{j}", rnd.choice(shapes0), rnd.choice([F64, F64, F64, F64, F32, I64, I64])) for j in range(nin)]
        pool = [np.ones(shp, dt) for _, shp, dt, _ in ins]
        steps = []
        want = rnd.randint(3, 7)
        tries = 0
        while len(steps) < want and tries < 60:
            tries += 1
            st = _draw_step(rnd, [a.shape for a in pool], [a.dtype for a in pool])
            if st is None:
                continue
            kind, opnds, prm = st
            try:
                with np.errstate(all="ignore"):
                    r = np.asarray(_apply_step(NpLib(), kind, [pool[q] for q in opnds], prm))
            except (ValueError, TypeError, IndexError):
                continue
            if r.ndim > 4 or any(int(d) > 8 for d in r.shape) or r.size > 64:
                continue
            steps.append(st)
            pool.append(r)
        if len(steps) < 3:
            continue
        kinds = {s_[0] for s_ in steps}
        tags = ["generated2"]
        if kinds & {"sum", "prod", "max", "min", "matmul", "einsum1", "einsum2"}:
            tags += ["reduction", "einsum"]
        if "arange_index" in kinds:
            tags.append("advidx")
        if any(0 in a.shape for a in pool[len(ins):]) and kinds & {"sum", "prod", "matmul", "einsum1", "einsum2"}:
            tags.append("zsr")         # may hit the listed zero-size stored-reduction finding: C01's own list only
        out.append(Prog(f"g2_{seed}_{k}", ins, _gen2_fn(steps, min(3, len(steps))), tuple(tags)))
        k += 1
    return out


# ---------------------------------------------------------------------------
# programs over symbolic (size-parameter) shapes  (C11, C16)

@dataclass
class SymProg:
    name: str
    sizes: tuple                # size parameter names
    inputs: list                # (name, shape_fn(sizes...) -> tuple, dtype)
    fn: object                  # fn(L, S, **arrays) -> {name: array};  S: dict size name -> scalar (SizeParam / int)
    min_size: int = 0


SYM_CORPUS = [
    SymProg("sym_elementwise", ("n",), [("x", lambda n: (n, 3), F64), ("y", lambda n: (3,), F64), ("z", lambda n: (n, 1), F64)],
            lambda L, S, x, y, z: {"o": x * y + z, "p": 2.0 - x / (z * z + 1)}),
    SymProg("sym_two_params", ("n", "m"), [("a", lambda n, m: (n, m), F64), ("b", lambda n, m: (m,), F64)],
            lambda L, S, a, b: {"o": a + b, "t": a.T, "w": L.where(L.less(a, b), a, b)}),
    SymProg("sym_roll", ("n",), [("x", lambda n: (n, 2), F64)],
            lambda L, S, x: {"r": L.roll(x, 3, 0), "rn": L.roll(x, -1, 0), "r1": L.roll(x, 1, 1)}, min_size=1),
    SymProg("sym_stack", ("n",), [("x", lambda n: (n,), F64), ("y", lambda n: (n,), F64)],
            lambda L, S, x, y: {"s0": L.stack([x, y]), "s1": L.stack([x, y, x + y], axis=1)}),
    SymProg("sym_reduce_static", ("n",), [("x", lambda n: (n, 4), F64)],
            lambda L, S, x: {"s": L.sum(x, axis=1), "m": L.max(x, axis=1)}),
    SymProg("sym_reduce_symbolic", ("n",), [("x", lambda n: (3, n), F64)],
            lambda L, S, x: {"s": L.sum(x, axis=1)}, min_size=1),
    SymProg("sym_einsum", ("n",), [("a", lambda n: (n, 3), F64), ("b", lambda n: (3, 2), F64), ("v", lambda n: (n,), F64)],
            lambda L, S, a, b, v: {"mm": a @ b, "ew": L.einsum("ij,i->ij", a, v), "tr": L.einsum("ij->ji", a)}),
    SymProg("sym_einsum_contract", ("n",), [("a", lambda n: (2, n), F64), ("b", lambda n: (n, 3), F64)],
            lambda L, S, a, b: {"mm": a @ b}, min_size=1),
    SymProg("sym_full", ("n",), [("x", lambda n: (n, 2), F64)],
            lambda L, S, x: {"z": L.zeros((S["n"], 2)) + x, "f": L.full((S["n"],), 2.5), "zl": L.zeros_like(x) + 1}),
    SymProg("sym_index", ("n",), [("x", lambda n: (n, 4), F64)],
            lambda L, S, x: {"c": x[:, 1], "sl": x[:, ::2], "rev": x[:, ::-1]}),
    SymProg("sym_affine_shape", ("n",), [("x", lambda n: (2 * n + 1,), F64), ("y", lambda n: (2 * n + 1,), F64)],
            lambda L, S, x, y: {"o": x + y, "r": L.roll(x, 2, 0)}),
    SymProg("sym_expand", ("n",), [("x", lambda n: (n,), F64)],
            lambda L, S, x: {"e": L.expand_dims(x, 0) * 2, "bt": L.broadcast_to(L.expand_dims(x, 1), (S["n"], 3))}),
    SymProg("sym_two_reductions", ("n", "m"),
            [("a", lambda n, m: (n, m), F64), ("b", lambda n, m: (n, m), F64), ("v", lambda n, m: (n,), F64)],
            lambda L, S, a, b, v: {"o": L.einsum("ij,ij,k->k", a, b, v)}, min_size=1),
    SymProg("sym_respelled_lengths", ("n", "m"),
            [("x", lambda n, m: (n + m, 3), F64), ("y", lambda n, m: (m + n, 1), F64), ("z", lambda n, m: (n + m, 3), F64)],
            lambda L, S, x, y, z: {"o": x * y + z, "w": L.where(L.less(x, z), y, x)}),
    SymProg("sym_respelled_double", ("n",),
            [("x", lambda n: (2 * n,), F64), ("y", lambda n: (n + n,), F64)],
            lambda L, S, x, y: {"o": x - y, "w": L.where(L.less(x, y), x, y)}),
    SymProg("sym_pad", ("n",), [("x", lambda n: (n,), F64)],
            lambda L, S, x: {"p": L.pad(x, (1, 2))}),
    SymProg("sym_int_index", ("n", "m"), [("y", lambda n, m: (n + 2, m), F64), ("z", lambda n, m: (3, 2 * n + 1), F64)],
            # integer indices (negative ones too) that are in bounds for every size
            lambda L, S, y, z: {"last": y[-1], "last2": y[-2] * 2, "first": y[0], "mix": 2 * y[-1] + y[1], "zc": z[:, -1] + z[:, 0],
                                "zr": z[-1]}),
    SymProg("sym_transpose3", ("n", "m"),
            [("a", lambda n, m: (n, m, 2), F64), ("b", lambda n, m: (2, n), F64), ("c", lambda n, m: (m, n + 1), F64)],
            lambda L, S, a, b, c: {"t120": L.transpose(a, (1, 2, 0)), "t201": L.transpose(a, (2, 0, 1)),
                                   "tb": L.transpose(a, (1, 2, 0)) + b, "t021": L.transpose(a, (0, 2, 1)),
                                   "ct": c.T * 2}),
    SymProg("sym_concat", ("n", "m"), [("x", lambda n, m: (n, 2), F64), ("y", lambda n, m: (m, 2), F64)],
            # (concatenation *along* an axis with symbolic operand lengths is not implemented by the lowering:
            #  TypeError in map_concatenate -- DESIGN.md section 6, "seen, not asserted")
            lambda L, S, x, y: {"c1": L.concatenate([x, x * 2], axis=1), "c1y": L.concatenate([y * y, y], axis=1) + 1}),
]


def _load_sym_generated():
    """the generated part of the size-parameter corpus: written once by tools/gen_sym_corpus.py and COMMITTED
    (pv/sym_generated.json) -- fixed corpus entries, not regenerated at check time"""
    import json
    import os
    path = os.path.join(os.path.dirname(os.path.abspath(__file__)), "sym_generated.json")
    if not os.path.exists(path):
        return []

    def tup(x):
        return tuple(tup(y) for y in x) if isinstance(x, (list, tuple)) else x

    def static(d):
        return d[1] == 0 and d[2] == 0
    out = []
    for rec in json.load(open(path)):
        steps = [(k, tuple(o), tup(p)) for k, o, p in rec["steps"]]
        nins, nouts = len(rec["inputs"]), rec["nouts"]
        inputs = [(nm, (lambda n, m, dims=tup(dims): tuple(d[0] if static(d) else d[0] + d[1] * n + d[2] * m for d in dims)), F64)
                  for nm, dims in rec["inputs"]]

        def fn(L, S, steps=steps, nins=nins, nouts=nouts, **ins):
            pool = [ins[k] for k in sorted(ins)]
            for kind, opnds, prm in steps:
                pool.append(_apply_step(L, kind, [pool[k] for k in opnds], prm))
            return {f"o{k}": v for k, v in enumerate(pool[nins:][-nouts:])}
        out.append(SymProg(rec["name"], ("n", "m"), inputs, fn, min_size=rec.get("min_size", 0)))
    return out


SYM_GENERATED = _load_sym_generated()


def sym_corpus(tier="quick"):
    """hand-written size-parameter programs + the committed generated ones (cheap: all of them in both tiers)"""
    return SYM_CORPUS + SYM_GENERATED


ALL_SYM = SYM_CORPUS + SYM_GENERATED


def build_sym_pytato(prog: SymProg):
    import pytato as pt
    L = PtLib()
    S = {s: pt.make_size_param(s) for s in prog.sizes}
    ins = {name: pt.make_placeholder(name, shp(*[S[s] for s in prog.sizes]), dt) for name, shp, dt in prog.inputs}
    return prog.fn(L, S, **ins), ins, S


def build_sym_ref(prog: SymProg, xp, sizes: dict):
    ins = {name: xp.input(name, shp(*[sizes[s] for s in prog.sizes]), dt) for name, shp, dt in prog.inputs}
    return prog.fn(xp, sizes, **ins), ins


def build_sym_numpy(prog: SymProg, sizes: dict, data):
    with np.errstate(all="ignore"):
        return prog.fn(NpLib(), sizes, **data)
